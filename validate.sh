#!/bin/bash
# validates MANIFEST.json and every evidence file against the schemas
python3-vt - <<'PY'
import json,jsonschema,glob,sys
ok=True
try:
    jsonschema.validate(json.load(open('/verif/MANIFEST.json')),json.load(open('/root/.vp/MANIFEST.schema.json')))
except Exception as e:
    print("MANIFEST invalid:",e); ok=False
sch=json.load(open('/root/.vp/EVIDENCE.schema.json'))
for f in sorted(glob.glob('/verif/evidence/*.json')):
    try: jsonschema.validate(json.load(open(f)),sch)
    except Exception as e: print(f,"invalid:",str(e)[:300]); ok=False
print("valid" if ok else "INVALID")
sys.exit(0 if ok else 1)
PY

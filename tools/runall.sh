#!/bin/bash
# tools/runall.sh [quick|thorough] : runs every registered check sequentially on /repo's current tree and
# prints one verdict line per check (used to regenerate the committed evidence on the unchanged tree).
tier="${1:-quick}"
cd /verif
rm -rf evidence/replay
for p in $(python3 -c "import json; print(' '.join(c['property_id'] for c in json.load(open('MANIFEST.json'))['checks']))"); do
  s=$(date +%s)
  out=$(./run.sh $p $tier 2>&1); code=$?
  echo "$p exit=$code $(( $(date +%s) - s ))s $(echo "$out" | grep -E "^$p " | tail -1)"
  echo "$out" | grep -E "^VIOLATION" | head -5
done
./validate.sh

#!/usr/bin/env python3
"""tools/prunefindings.py Cxx : keep, among the known findings of a property, only the keys the latest
evidence file reports as reproduced (used after re-keying a check; never run by the checks themselves)."""
import json,sys
prop=sys.argv[1]
ev=json.load(open('/verif/evidence/%s.json'%prop))
keep=set(ev['coverage']['known_findings_reproduced'] or [])
out=[];seen=set();dropped=0
for l in open('/verif/known_findings.jsonl').read().split('\n'):
    if not l.strip(): continue
    if l.startswith('{'):
        d=json.loads(l)
        if d['property']==prop:
            if d['key'] not in keep or d['key'] in seen:
                dropped+=1; continue
            seen.add(d['key'])
    out.append(l)
open('/verif/known_findings.jsonl','w').write('\n'.join(out)+'\n')
print("kept",len(seen),"dropped",dropped)

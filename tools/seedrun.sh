#!/bin/bash
# tools/seedrun.sh <patch.diff> <Cxx> [quick|thorough]
# Applies a seeded change to a scratch worktree of /repo and runs one check against it from a scratch
# copy of /verif (so /repo, /verif/evidence and parallel runs are not disturbed). Prints the check's
# verdict lines. Everything is removed afterwards.
set -u
patch="$1"; prop="$2"; tier="${3:-quick}"
tag="$(basename "$(dirname "$patch")")-$prop-$$"
wt="/var/tmp/seedwt-$tag"; root="/var/tmp/seedroot-$tag"
cleanup() { git -C /repo worktree remove --force "$wt" >/dev/null 2>&1; rm -rf "$wt" "$root"; }
trap cleanup EXIT
git -C /repo worktree add -q --detach "$wt" HEAD || exit 2
if ! git -C "$wt" apply "$patch" 2>/dev/null && ! git -C "$wt" apply --3way "$patch"; then echo "seedrun: patch does not apply"; exit 2; fi
mkdir -p "$root"
rsync -a --exclude /.git --exclude /bin --exclude /evidence --exclude /seeded /verif/ "$root/"
out="$(VERIF_ROOT="$root" VERIF_REPO="$wt" "$root/run.sh" "$prop" "$tier" 2>&1)"
code=$?
echo "$out" | grep -E "^VIOLATION|^  key=|^KNOWN-FINDING|^$prop |run.sh:|broken|vacuous" | cut -c1-260 | head -40; echo "$out" | tail -5 | cut -c1-300
echo "seedrun: $patch $prop exit=$code"
exit $code

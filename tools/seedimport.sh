#!/bin/bash
# tools/seedimport.sh <Cxx> <A|B> "<what it needs to manifest>"
# Copies a verified seeded change from /tmp/seed-<Cxx>-out/<X> into /verif/seeded/<Cxx>-<X>/
set -eu
p="$1"; x="$2"; needs="$3"
src="/tmp/seed-$p-out/$x"; dst="/verif/seeded/$p-$x"
mkdir -p "$dst"
cp "$src/patch.diff" "$dst/patch.diff"
rm -rf "$dst/demo"; cp -r "$src/demo" "$dst/demo"
[ -f "$src/notes.md" ] && cp "$src/notes.md" "$dst/notes.md"
ver="$(grep -E 'exit=' /var/tmp/verify-$p-$x.log | tr '\n' ' ')"
python3 - "$p" "$x" "$needs" "$ver" "$dst" <<'PY'
import json,sys,subprocess
p,x,needs,ver,dst=sys.argv[1:]
files=[l[6:] for l in open(dst+'/patch.diff') if l.startswith('+++ b/')]
meta={"id":p+"-"+x,"breaks_property":p,"files_touched":[f.strip() for f in files],
 "needs_to_manifest":needs,
 "confirmed":{"how":"tools/seedverify.sh in a scratch worktree: demo on unmodified tree, go build ./..., go test -vet=off -count=1 ./... with the change, demo with the change","result":ver.strip()},
 "origin":"independent sub-agent given only the property text and a scratch worktree",
 "detected_by":[]}
json.dump(meta,open(dst+'/meta.json','w'),indent=1)
PY
echo "imported $dst"

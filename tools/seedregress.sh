#!/bin/bash
# tools/seedregress.sh [parallelism]: runs every seeded change against the first check named in its
# meta.json "detected_by" (scratch worktree + scratch copy of /verif per run) and prints one line per seed.
cd /verif
par="${1:-4}"
out=/var/tmp/seedregress; rm -rf $out; mkdir -p $out
python3 - <<'PY' > $out/list.txt
import json,glob,re
for m in sorted(glob.glob('/verif/seeded/*/meta.json')):
    e=json.load(open(m)); d=e.get('detected_by') or []
    c=None
    for x in d:
        mm=re.match(r'\s*(C\d\d)\b',x)
        if mm: c=mm.group(1); break
    if c is None: c=e['breaks_property']
    print(e['id'],c)
PY
cat $out/list.txt | xargs -P "$par" -L 1 bash -c 'tools/seedrun.sh /verif/seeded/$0/patch.diff $1 > '$out'/$0-by$1.log 2>&1; echo "$0 $1 $(tail -1 '$out'/$0-by$1.log | grep -o "exit=.*")"' | tee $out/summary.txt
echo "not detected:"; grep -v "exit=1" $out/summary.txt

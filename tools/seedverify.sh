#!/bin/bash
# tools/seedverify.sh <seed-out-dir>/<A|B>
# Confirms a seeded change: applies, builds, runs the repository's own test suite, and runs the demo
# with and without the change. Uses a scratch worktree that is removed afterwards.
set -u
d="$1"; tag="$(echo "$d" | tr '/' '_')-$$"
wt="/var/tmp/seedvf-$tag"; export REPO="$wt"
export GOFLAGS=-mod=mod GOPROXY=off GOSUMDB=off GOTOOLCHAIN=local GOMODCACHE=/root/go/pkg/mod
export TMPDIR="/var/tmp/seedvf-tmp-$tag"; mkdir -p "$TMPDIR"
cleanup() { git -C /repo worktree remove --force "$wt" >/dev/null 2>&1; rm -rf "$wt" "$TMPDIR"; }
trap cleanup EXIT
git -C /repo worktree add -q --detach "$wt" HEAD || exit 2
echo "== demo WITHOUT change (must pass)"
( cd "$d/demo" && bash ./run.sh "$wt" ) > "$TMPDIR/demo0.log" 2>&1; echo "demo-without exit=$?"
git -C "$wt" checkout -q -- . ; git -C "$wt" clean -fdq
git -C "$wt" apply "$d/patch.diff" || { echo "patch does not apply"; exit 2; }
( cd "$wt" && go build ./... ) || { echo "BUILD FAILS"; exit 2; }
echo "== test suite WITH change"
( cd "$wt" && go test -vet=off -count=1 -timeout 25m ./... ) > "$TMPDIR/suite.log" 2>&1; echo "suite exit=$?"; grep -E "^(FAIL|---)" "$TMPDIR/suite.log" | head
echo "== demo WITH change (must fail)"
( cd "$d/demo" && bash ./run.sh "$wt" ) > "$TMPDIR/demo1.log" 2>&1; echo "demo-with exit=$?"
tail -3 "$TMPDIR/demo1.log"

package main

import (
	"bufio"
	"fmt"
	"os"
	"path/filepath"
	"regexp"
	"runtime"
	"sort"
	"strconv"
	"strings"
	"sync"
	"time"

	"github.com/go-critic/go-critic/linter"

	"verif/mc/internal/evidence"
	"verif/mc/internal/harness"
	"verif/mc/internal/progenum"
)

func init() { register("C15", c15) }

type apiTable struct {
	funcs   map[string]int  // "pkg.Name" (last path element) -> minor version of first appearance
	methods map[string]int  // "Name" -> earliest version any std type got a method of that name
	pkgs    map[string]bool // last path elements of std packages
}

var apiLineRE = regexp.MustCompile(`^pkg ([\w/.-]+)(?: \([^)]*\))?, (func|method|type|var|const) (?:\(([^)]*)\) )?(\w+)`)

func loadAPITable() (*apiTable, error) {
	t := &apiTable{funcs: map[string]int{}, methods: map[string]int{}, pkgs: map[string]bool{}}
	dir := filepath.Join(runtime.GOROOT(), "api")
	files, _ := filepath.Glob(filepath.Join(dir, "go1*.txt"))
	if len(files) < 10 {
		return nil, fmt.Errorf("GOROOT/api not found under %s", dir)
	}
	for _, f := range files {
		base := strings.TrimSuffix(filepath.Base(f), ".txt")
		minor := 0
		if base != "go1" {
			minor, _ = strconv.Atoi(strings.TrimPrefix(base, "go1."))
		}
		fh, err := os.Open(f)
		if err != nil {
			return nil, err
		}
		sc := bufio.NewScanner(fh)
		sc.Buffer(make([]byte, 1<<20), 1<<22)
		for sc.Scan() {
			m := apiLineRE.FindStringSubmatch(sc.Text())
			if m == nil {
				continue
			}
			pkg := m[1]
			if i := strings.LastIndex(pkg, "/"); i >= 0 {
				pkg = pkg[i+1:]
			}
			t.pkgs[pkg] = true
			name := m[4]
			if m[2] == "method" {
				if old, ok := t.methods[name]; !ok || minor < old {
					t.methods[name] = minor
				}
				continue
			}
			key := pkg + "." + name
			if old, ok := t.funcs[key]; !ok || minor < old {
				t.funcs[key] = minor
			}
		}
		fh.Close()
	}
	return t, nil
}

var (
	qualTokRE   = regexp.MustCompile(`\b([a-z][a-zA-Z0-9]*)\.([A-Z]\w*)`)
	methodTokRE = regexp.MustCompile(`\b(\w+)\.([A-Z]\w*)\b`)
	octalTokRE  = regexp.MustCompile(`\b0[oO][0-7_]+\b`)
)

var expectationRE = regexp.MustCompile(`(?m)^\s*/\*! .* \*/\s*$`)

type recommended struct {
	token string
	since int
}

// recommendations extracts the std API / literal syntax a diagnostic recommends (tokens that are not
// merely quoted from the analysed file) together with the Go 1.x release that introduced them.
func recommendations(api *apiTable, d harness.Diag, src string) []recommended {
	text := d.Text
	if d.HasFix {
		text += "\n" + d.Repl
	}
	var out []recommended
	seen := map[string]bool{}
	for _, m := range qualTokRE.FindAllStringSubmatch(text, -1) {
		tok := m[1] + "." + m[2]
		if seen[tok] || strings.Contains(src, tok) || !api.pkgs[m[1]] {
			continue
		}
		seen[tok] = true
		if since, ok := api.funcs[tok]; ok {
			out = append(out, recommended{tok, since})
		}
	}
	for _, m := range methodTokRE.FindAllStringSubmatch(text, -1) {
		if api.pkgs[m[1]] {
			if _, isFunc := api.funcs[m[1]+"."+m[2]]; isFunc {
				continue // a package-level function, handled above
			}
		}
		tok := "." + m[2]
		if seen[tok] || strings.Contains(src, tok+"(") || strings.Contains(src, tok+" ") || strings.Contains(src, tok+")") || strings.Contains(src, tok+"\n") {
			continue
		}
		seen[tok] = true
		// a method name is dated by its earliest appearance on any std type (a lower bound, so no false alarm);
		// names that some std type already had in go1.0 cannot be dated
		if since, ok := api.methods[m[2]]; ok && since > 0 {
			out = append(out, recommended{"method " + tok, since})
		}
	}
	if octalTokRE.MatchString(text) && !octalTokRE.MatchString(src) {
		out = append(out, recommended{"0o literal", 13})
	}
	return out
}

func c15(args []string) int {
	ev := evidence.New("C15", "exploration")
	tier := evidence.Tier()
	harness.Init()
	api, err := loadAPITable()
	if err != nil {
		fmt.Fprintln(os.Stderr, err)
		return 2
	}
	ev.Assume("GOROOT/api/go1.*.txt is the reference for the release that introduced a standard-library function or method; a token that occurs verbatim in the analysed file is a quotation, not a recommendation")
	ev.Assume("method names are dated by their earliest appearance on any standard type (a lower bound: cannot raise a false alarm)")

	// ---- corpus: programs with their sources
	var progs []progenum.Prog
	add := func(p progenum.Prog) { progs = append(progs, p) }
	testdataProgs(add)
	progenum.Odd(func(p progenum.Prog) {
		if !strings.Contains(p.ID, "+") {
			add(p)
		}
	})
	versions := []string{""}
	for n := 0; n <= 25; n++ {
		versions = append(versions, fmt.Sprintf("1.%d", n), fmt.Sprintf("go1.%d", n))
	}
	versions = append(versions, "1.99", "2.0")
	type vres struct {
		out map[string][]string // prog id -> diag strings
	}
	results := map[string]*vres{}
	var mu sync.Mutex
	var wg sync.WaitGroup
	sem := make(chan struct{}, runtime.GOMAXPROCS(0))
	recCount := 0
	for _, v := range versions {
		wg.Add(1)
		sem <- struct{}{}
		go func(v string) {
			defer wg.Done()
			defer func() { <-sem }()
			infos := harness.Infos(nil)
			set, err := harness.NewSet(infos, v)
			if err != nil {
				fmt.Fprintln(os.Stderr, "NewSet", v, err)
				os.Exit(2)
			}
			pv, _ := linter.ParseGoVersion(v)
			r := &vres{out: map[string][]string{}}
			for i := range progs {
				p := &progs[i]
				pk := harness.Load(p.Path, p.Files)
				if len(pk.Errs) > 0 && !allowCaseOrder(p) {
					pk.Release()
					continue
				}
				d, _ := set.VisitAll(pk)
				pk.Release()
				r.out[p.ID] = harness.DiagStrings(d)
				ev.Eval(1)
				if v == "" || pv.Major != 1 || pv.Minor < 13 {
					continue // the property quantifies over target versions from 1.13 to the newest
				}
				// "quoted from the analysed file" = occurs in the flagged region: the lines of the flagged file from
				// the diagnostic's line on (12 lines cover every multi-statement pattern of the shipped rules). The
				// examples' /*! expected warning */ comments are not analysed code.
				fileLines := map[string][]string{}
				for _, f := range p.Files {
					fileLines[f.Name] = strings.Split(expectationRE.ReplaceAllString(f.Src, ""), "\n")
				}
				region := func(x harness.Diag) string {
					ls := fileLines[x.File]
					lo, hi := x.Line-1, x.Line+12
					if lo < 0 {
						lo = 0
					}
					if hi > len(ls) {
						hi = len(ls)
					}
					if lo > hi {
						return ""
					}
					return strings.Join(ls[lo:hi], "\n")
				}
				for _, x := range d {
					for _, rec := range recommendations(api, x, region(x)) {
						mu.Lock()
						recCount++
						mu.Unlock()
						ev.Nontrivial(fmt.Sprintf("%s|%s|%s", x.Checker, rec.token, strings.TrimPrefix(v, "go")))
						if rec.since > pv.Minor {
							ev.Violate(evidence.Violation{
								Key:      fmt.Sprintf("%s|recommends|%s|since=1.%d", x.Checker, rec.token, rec.since),
								What:     fmt.Sprintf("%s recommends %s (introduced in Go 1.%d) although the configured version is older", x.Checker, rec.token, rec.since),
								Observed: fmt.Sprintf("-go=%s: %s", v, x.String()),
								Replay:   func() map[string]interface{} { m := progReplay(p, x.Checker); m["goVersion"] = v; return m }(),
							})
						}
					}
				}
			}
			mu.Lock()
			results[v] = r
			mu.Unlock()
		}(v)
	}
	wg.Wait()
	ev.Set("recommendations_judged", recCount)
	ev.Set("versions", len(versions))
	ev.Set("programs", len(progs))
	// unset == newest; "1.N" == "go1.N"
	cmp := func(a, b, what string) {
		for id, da := range results[a].out {
			if !equalStrings(da, results[b].out[id]) {
				ev.Violate(evidence.Violation{Key: "equivalence|" + what + "|" + firstDiffChecker(da, results[b].out[id]), What: "diagnostics differ between version settings that must be equivalent (" + what + ")",
					Observed: fmt.Sprintf("%s: -go=%q only: %v; -go=%q only: %v", id, a, diffOnly(da, results[b].out[id]), b, diffOnly(results[b].out[id], da)), Replay: map[string]interface{}{"program": id, "versions": []string{a, b}}})
				return
			}
		}
	}
	cmp("", "1.25", "unset=newest")
	cmp("", "1.99", "unset=newest")
	for n := 0; n <= 25; n++ {
		cmp(fmt.Sprintf("1.%d", n), fmt.Sprintf("go1.%d", n), "spelling")
	}

	// ---- retargeting: the integrator may change the version of a live context (SetGoVersion after the
	// checkers exist); a long-lived set must then behave like a set created with that version
	{
		set, err := harness.NewSet(harness.Infos(nil), "1.21")
		if err != nil {
			fmt.Fprintln(os.Stderr, err)
			return 2
		}
		for _, v := range []string{"1.13", "", "1.17", "1.12", "1.18", "go1.15", "1.25", "1.14"} {
			set.Ctx.SetGoVersion(v)
			for i := range progs {
				p := &progs[i]
				want, ok := results[v].out[p.ID]
				if !ok {
					continue
				}
				pk := harness.Load(p.Path, p.Files)
				d, _ := set.VisitAll(pk)
				pk.Release()
				ev.Eval(1)
				got := harness.DiagStrings(d)
				if !equalStrings(got, want) {
					ev.Violate(evidence.Violation{Key: "retarget|" + firstDiffChecker(got, want), What: "after SetGoVersion on a live context the checkers still use the version they were created with",
						Observed: fmt.Sprintf("%s after retargeting to %q: only here %v; only with a set created for that version %v", p.ID, v, diffOnly(got, want), diffOnly(want, got)), Replay: func() map[string]interface{} {
							m := progReplay(p, "")
							m["goVersion"] = v
							m["created_with"] = "1.21"
							return m
						}()})
					break
				}
			}
		}
	}

	// ---- version string parser / comparator against numeric comparison
	c15Parser(ev)

	// ---- plumbing through the real binaries
	c15Plumbing(ev, tier)

	ev.Sample(map[string]interface{}{"versions": versions[:7], "corpus": "all example packages + odd-syntax and build-constraint files", "oracle": "for every diagnostic, every std function/method/literal syntax named in message or fix that is not quoted from the analysed file must have since(api) <= configured version"})
	ev.Set("rule", "every version 1.0..1.25 in both spellings, unset, 1.99, 2.0 x every corpus program x all checkers; every string over the version alphabet up to 4 symbols for the parser; all version pairs for the comparator; 6 versions through -go on both CLI binaries and the analyzer. non-trivial = distinct (checker, recommended API, version) judged")
	return ev.Finish()
}

func c15Parser(ev *evidence.Run) {
	alphabet := []string{"go", "1", "2", "0", "9", "10", ".", "x", "-", " "}
	var strs []string
	var rec func(prefix string, depth int)
	rec = func(prefix string, depth int) {
		strs = append(strs, prefix)
		if depth == 4 {
			return
		}
		for _, a := range alphabet {
			rec(prefix+a, depth+1)
		}
	}
	rec("", 0)
	wellFormed := regexp.MustCompile(`^(go)?(\d+)\.(\d+)$`)
	for _, s := range strs {
		ev.Eval(1)
		v, err := linter.ParseGoVersion(s)
		if m := wellFormed.FindStringSubmatch(s); m != nil {
			ev.Nontrivial("parse|" + s)
			maj, _ := strconv.Atoi(m[2])
			min, _ := strconv.Atoi(m[3])
			if err != nil || v.Major != maj || v.Minor != min {
				ev.Violate(evidence.Violation{Key: "parser|well-formed-misparsed", What: "an accepted version string is not interpreted numerically", Observed: fmt.Sprintf("%q -> %+v, %v (want %d.%d)", s, v, err, maj, min), Replay: map[string]interface{}{"version": s}})
			}
			continue
		}
		if s == "" || s == "go" {
			continue // unset
		}
		// anything else: either rejected, or (if accepted) still numeric in both parts
		if err == nil {
			parts := strings.Split(strings.TrimPrefix(s, "go"), ".")
			ok := len(parts) == 2
			if ok {
				a, e1 := strconv.Atoi(parts[0])
				b, e2 := strconv.Atoi(parts[1])
				ok = e1 == nil && e2 == nil && a == v.Major && b == v.Minor
			}
			if !ok {
				ev.Violate(evidence.Violation{Key: "parser|garbage-accepted", What: "a malformed version string is accepted with a meaning that is not its numeric reading", Observed: fmt.Sprintf("%q -> %+v", s, v), Replay: map[string]interface{}{"version": s}})
			}
		}
	}
	vs := [][2]int{{0, 9}, {1, 0}, {1, 2}, {1, 9}, {1, 10}, {1, 13}, {1, 21}, {1, 100}, {2, 0}, {2, 1}, {10, 0}}
	for _, a := range vs {
		for _, b := range vs {
			ev.Eval(1)
			got := linter.GoVersion{Major: a[0], Minor: a[1]}.GreaterOrEqual(linter.GoVersion{Major: b[0], Minor: b[1]})
			want := a[0] > b[0] || (a[0] == b[0] && a[1] >= b[1])
			if a[0] == 0 {
				want = true // Major 0 = unset = newest
			}
			if got != want {
				ev.Violate(evidence.Violation{Key: "comparator|not-numeric", What: "version comparison is not numeric on (major, minor)", Observed: fmt.Sprintf("%v >= %v: got %v want %v", a, b, got, want), Replay: map[string]interface{}{"a": a, "b": b}})
			}
		}
	}
}

const c15Witness = `package w

import (
	"os"
	"strings"
	"sync"
	"time"
)

func vers(t time.Time, s string, m *sync.Map) {
	_ = os.FileMode(0644)
	_ = t.Unix() / 1000
	_ = strings.Index(s, "a") != -1
	i := strings.Index(s, "=")
	k, v := s[:i], s[i+1:]
	_, _ = k, v
	if x, ok := m.Load(1); ok {
		m.Delete(1)
		_ = x
	}
}
`

func c15Plumbing(ev *evidence.Run, tier string) {
	ws := filepath.Join(harness.WorkDir(), "c15ws")
	writeTree(ws, map[string]string{"go.mod": "module w\n\ngo 1.21\n", "w.go": c15Witness})
	pk := harness.Load("w", []harness.File{{Name: "w.go", Src: c15Witness}})
	if len(pk.Errs) > 0 {
		fmt.Fprintln(os.Stderr, "c15 witness:", pk.Errs)
		os.Exit(2)
	}
	vers := []string{"", "1.12", "1.13", "1.14", "1.15", "1.16", "1.17", "1.18", "1.20", "1.21", "go1.17"}
	bins := map[string]string{}
	for name, pkg := range map[string]string{"go-critic": "./cmd/go-critic", "gocritic": "./cmd/gocritic", "go-critic-analysis": "./cmd/go-critic-analysis"} {
		b, err := harness.BuildBin(pkg)
		if err != nil {
			fmt.Fprintln(os.Stderr, err)
			os.Exit(2)
		}
		bins[name] = b
	}
	distinct := map[string]bool{}
	for _, v := range vers {
		set, err := harness.NewSet(harness.Infos(nil), v)
		if err != nil {
			fmt.Fprintln(os.Stderr, err)
			os.Exit(2)
		}
		d, _ := set.VisitAll(pk)
		var want []string
		for _, x := range d {
			want = append(want, fmt.Sprintf("%s:%d:%d: %s: %s", x.File, x.Line, x.Col, x.Checker, x.Text))
		}
		sort.Strings(want)
		distinct[strings.Join(want, "\n")] = true
		for _, fe := range []string{"go-critic", "gocritic", "go-critic-analysis"} {
			var a []string
			if fe == "go-critic-analysis" {
				a = []string{"-enable-all"}
			} else {
				a = []string{"check", "-enableAll"}
			}
			if v != "" {
				a = append(a, "-go="+v)
			}
			a = append(a, "./...")
			res := harness.RunCmd(ws, harness.GoEnv(), 3*time.Minute, bins[fe], a...)
			seen := map[string]bool{}
			var got []string
			for _, m := range c14LineRE.FindAllStringSubmatch(res.Stdout+res.Stderr, -1) {
				l := fmt.Sprintf("%s:%s:%s: %s: %s", m[1], m[2], m[3], m[4], m[5])
				if !seen[l] {
					seen[l] = true
					got = append(got, l)
				}
			}
			sort.Strings(got)
			ev.Eval(1)
			ev.Nontrivial("plumbing|" + fe + "|" + v)
			w := want
			if fe == "go-critic-analysis" {
				// the analyzer does not offer the rule-based checkers (C08's subject): compare on what it offers
				var w2 []string
				for _, l := range want {
					parts := strings.SplitN(l, ": ", 3)
					if len(parts) == 3 && !harnessEmbedded[parts[1]] {
						w2 = append(w2, l)
					}
				}
				w = w2
			}
			if !equalStrings(got, w) {
				ev.Violate(evidence.Violation{Key: "plumbing|" + fe + "|" + firstDiffChecker(got, w), What: "the -go value given to the front-end is not the version the checkers use", Observed: fmt.Sprintf("%s %v\nonly from the binary: %v\nonly in-process with SetGoVersion(%q): %v", fe, a, diffOnly(got, w), v, diffOnly(w, got)), Replay: map[string]interface{}{"frontend": fe, "argv": a}})
			}
		}
	}
	if len(distinct) < 3 {
		fmt.Fprintln(os.Stderr, "c15 plumbing witness does not distinguish versions (vacuous)")
		os.Exit(2)
	}
	pk.Release()
}

package main

import (
	"fmt"
	"os"

	"verif/mc/internal/harness"
)

func init() { register("warm", warm) }

// warm pre-builds the real binaries so later checks hit the Go build cache.
func warm(args []string) int {
	for _, pkg := range []string{"./cmd/go-critic", "./cmd/gocritic", "./cmd/go-critic-analysis", "./cmd/gocritic-analysis", "./cmd/makedocs"} {
		if _, err := harness.BuildBin(pkg); err != nil {
			fmt.Fprintln(os.Stderr, err)
			return 2
		}
	}
	return 0
}

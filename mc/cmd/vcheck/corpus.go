package main

import (
	"encoding/json"
	"fmt"
	"os"
	"path/filepath"
	"regexp"
	"runtime"
	"sort"
	"strings"
	"sync"
	"sync/atomic"
	"time"

	"github.com/go-critic/go-critic/linter"

	"verif/mc/internal/evidence"
	"verif/mc/internal/harness"
	"verif/mc/internal/progenum"
)

type caseResult struct {
	prog    *progenum.Prog
	pkg     *harness.Pkg
	diags   []harness.Diag
	crashes []*harness.Crash
	hang    bool
	fatal   *fatalCase
	set     *harness.Set
}

type runOpts struct {
	checkers    []string // nil = all
	goVersion   string
	allowErrors func(p *progenum.Prog) bool
	workers     int
	keepPkg     bool // do not release the package after handle (handler releases)
	noVisit     bool // only load; the handler runs the checkers itself
}

type runStats struct {
	generated, illTyped, ran int64
	perFam                   map[string][2]int64 // fam -> generated, ran
	mu                       sync.Mutex
}

func (s *runStats) fam(f string, ran bool) {
	s.mu.Lock()
	v := s.perFam[f]
	v[0]++
	if ran {
		v[1]++
	}
	s.perFam[f] = v
	s.mu.Unlock()
}

var fakeOnce sync.Once

// fakeDyn holds fake packages registered at run time (path -> source).
var fakeDyn sync.Map

func registerFake(path, src string) { fakeDyn.Store(path, src) }

var fakeImportRE = regexp.MustCompile(`"(fake/ns/[^"]+)"`)

// fakeSources returns the registered fake packages imported by files (for replay artefacts).
func fakeSources(files []harness.File) map[string]string {
	out := map[string]string{}
	for _, f := range files {
		for _, m := range fakeImportRE.FindAllStringSubmatch(f.Src, -1) {
			if src, ok := fakeDyn.Load(m[1]); ok {
				out[m[1]] = src.(string)
			}
		}
	}
	return out
}

func installFakeResolver() {
	fakeOnce.Do(func() {
		sigs := map[string]progenum.Sig{}
		for _, s := range progenum.Sigs {
			sigs[s.ID] = s
		}
		harness.FakeResolver = func(path string) (string, bool) {
			if src, ok := fakeDyn.Load(path); ok {
				return src.(string), true
			}
			parts := strings.Split(path, "/") // fake/<sig>/<Fn>/<pkg>
			if len(parts) != 4 {
				return "", false
			}
			sig, ok := sigs[parts[1]]
			if !ok {
				return "", false
			}
			return progenum.FakeSrc(progenum.QName{Pkg: parts[3], Fn: parts[2]}, sig), true
		}
	})
}

// runCorpus runs every well-typed program of gen through long-lived checker sets (one per worker).
func runCorpus(gen func(emit func(progenum.Prog)), opts runOpts, handle func(*caseResult)) *runStats {
	installFakeResolver()
	harness.Init()
	st := &runStats{perFam: map[string][2]int64{}}
	nw := opts.workers
	if nw <= 0 {
		nw = runtime.GOMAXPROCS(0)
	}
	ch := make(chan progenum.Prog, 256)
	go func() {
		gen(func(p progenum.Prog) {
			atomic.AddInt64(&st.generated, 1)
			ch <- p
		})
		close(ch)
	}()
	newSet := func() *harness.Set {
		s, err := harness.NewSet(harness.Infos(opts.checkers), opts.goVersion)
		if err != nil {
			fmt.Fprintln(os.Stderr, "NewSet:", err)
			os.Exit(2)
		}
		return s
	}
	skips := loadFatalSkips()
	curDir := os.Getenv("VERIF_CUR_DIR")
	var wg sync.WaitGroup
	for w := 0; w < nw; w++ {
		wg.Add(1)
		go func(w int) {
			defer wg.Done()
			set := newSet()
			curFile := ""
			if curDir != "" {
				curFile = filepath.Join(curDir, fmt.Sprintf("cur-%d.json", w))
			}
			for p := range ch {
				p := p
				if fc, ok := skips[p.ID]; ok {
					// this program kills the process with an unrecoverable runtime error (confirmed alone by the supervisor)
					atomic.AddInt64(&st.ran, 1)
					st.fam(p.Fam, true)
					handle(&caseResult{prog: &p, fatal: &fc, crashes: []*harness.Crash{{Checker: fatalChecker(fc.Frame), Value: fc.Class, Frame: fc.Frame, Stack: fc.Class}}, set: set})
					continue
				}
				allow := opts.allowErrors != nil && opts.allowErrors(&p)
				if !allow && !harness.Precheck(p.Path, p.Files) {
					atomic.AddInt64(&st.illTyped, 1)
					st.fam(p.Fam, false)
					if os.Getenv("VERIF_DEBUG") != "" && (p.Fam == "odd" || os.Getenv("VERIF_DEBUG") == "all") {
						pk := harness.Load(p.Path, p.Files)
						fmt.Fprintf(os.Stderr, "ill-typed %s: %v\n", p.ID, pk.Errs)
						pk.Release()
					}
					continue
				}
				pk := harness.Load(p.Path, p.Files)
				if len(pk.Errs) > 0 && !allow {
					atomic.AddInt64(&st.illTyped, 1)
					st.fam(p.Fam, false)
					pk.Release()
					continue
				}
				if curFile != "" {
					data, _ := json.Marshal(progReplay(&p, ""))
					os.WriteFile(curFile, data, 0o644)
				}
				if opts.noVisit {
					atomic.AddInt64(&st.ran, 1)
					st.fam(p.Fam, true)
					handle(&caseResult{prog: &p, pkg: pk, set: set})
					pk.Release()
					continue
				}
				diags, crashes, hang := set.VisitAllWatchdog(pk)
				atomic.AddInt64(&st.ran, 1)
				st.fam(p.Fam, true)
				handle(&caseResult{prog: &p, pkg: pk, diags: diags, crashes: crashes, hang: hang, set: set})
				if hang {
					set = newSet() // the abandoned goroutine still owns the old one
				} else if !opts.keepPkg {
					pk.Release()
				}
			}
		}(w)
	}
	wg.Wait()
	return st
}

// enableUserRules configures the dynamic-rules checker of every set built afterwards in this process with the
// filter-kind fixture (one rule group per kind of DSL filter on broad patterns). Parameter values are
// process-global registry state, so this is called once, before any set is constructed.
func enableUserRules(files ...string) {
	if len(files) == 0 {
		files = []string{"filters.go"}
	}
	for i, f := range files {
		files[i] = filepath.Join(evidence.Root, "fixtures", "rules", f)
	}
	infos := harness.Infos([]string{"ruleguard"})
	if len(infos) != 1 {
		fmt.Fprintln(os.Stderr, "no ruleguard checker registered (broken check)")
		os.Exit(2)
	}
	p := infos[0].Params
	p["rules"].Value = strings.Join(files, ",")
	p["failOn"].Value = "all"
}

func fatalChecker(frame string) string {
	// "checkers.(*sqlQueryChecker).typeHasExecMethod" -> sqlQuery
	if i := strings.Index(frame, "(*"); i >= 0 {
		rest := frame[i+2:]
		if j := strings.Index(rest, "Checker)"); j >= 0 {
			return rest[:j]
		}
	}
	return "fatal"
}

// ---------------------------------------------------------------------------------------------
// corpora

func testdataProgs(emit func(progenum.Prog)) {
	for _, name := range harness.TestdataNames() {
		groups, err := harness.TestdataFiles(name)
		if err != nil {
			continue
		}
		var keys []string
		for k := range groups {
			keys = append(keys, k)
		}
		sort.Strings(keys)
		for _, k := range keys {
			emit(progenum.Prog{ID: "testdata|" + name + "|" + k, Fam: "testdata", Path: "github.com/go-critic/go-critic/checkers/testdata/" + name,
				Files: groups[k], Meta: map[string]string{"checker": name}})
		}
	}
}

// mutantProgs emits every 1-deviation mutant of every testdata file (ops nil = all operators).
func mutantProgs(ops map[string]bool, only func(name string) bool) func(emit func(progenum.Prog)) {
	return mutantProgsN(1, ops, only, 0)
}

// mutantPairProgs emits every 2-deviation mutant within the locality bound of progenum.MutantPairs
// (both sites in the same top-level declaration, disjoint edits).
func mutantPairProgs(ops map[string]bool, maxLines int, only func(name string) bool) func(emit func(progenum.Prog)) {
	return mutantProgsN(2, ops, only, maxLines)
}

func mutantProgsN(dev int, ops map[string]bool, only func(name string) bool, maxLines int) func(emit func(progenum.Prog)) {
	enum, idp, famp := progenum.Mutants, "mutant", "mutant:"
	if dev == 2 {
		enum = func(filename, src string, ops map[string]bool) []progenum.Mutant {
			return progenum.MutantPairs(filename, src, ops, maxLines)
		}
		idp, famp = "mutant2", "mutant2:"
	}
	return func(emit func(progenum.Prog)) {
		for _, name := range harness.TestdataNames() {
			if only != nil && !only(name) {
				continue
			}
			groups, err := harness.TestdataFiles(name)
			if err != nil {
				continue
			}
			var keys []string
			for k := range groups {
				keys = append(keys, k)
			}
			sort.Strings(keys)
			for _, k := range keys {
				files := groups[k]
				for fi, f := range files {
					for mi, m := range enum(f.Name, f.Src, ops) {
						nf := make([]harness.File, len(files), len(files)+1)
						copy(nf, files)
						nf[fi] = harness.File{Name: f.Name, Src: progenum.Apply(f.Src, m.Edits)}
						if m.Helper == "sibling" {
							nf = append(nf, harness.File{Name: "vm_sibling.go", Src: "package " + k + "\n\n" + m.HelperSrc})
						}
						if m.Helper == "pair" {
							pkgName := k
							nf = append(nf, harness.File{Name: "vm_helpers.go", Src: "package " + pkgName + "\n" + progenum.PairHelpers})
						}
						fam := famp + m.Op
						if dev == 2 {
							fam = "mutant2" // 900+ operator pairs: one family, the operators are in the id
						}
						emit(progenum.Prog{ID: fmt.Sprintf("%s|%s|%s|%d|%s", idp, name, m.Site, mi, m.Op), Fam: fam,
							Path: "github.com/go-critic/go-critic/checkers/testdata/" + name, Files: nf,
							Meta: map[string]string{"checker": name, "op": m.Op, "site": m.Site}})
					}
				}
			}
		}
	}
}

func allowCaseOrder(p *progenum.Prog) bool {
	return p.Fam == "testdata" && p.Meta["checker"] == "caseOrder"
}

// progReplay is the self-contained form of a case written into replay artefacts.
func progReplay(p *progenum.Prog, checker string) map[string]interface{} {
	files := map[string]string{}
	for _, f := range p.Files {
		files[f.Name] = f.Src
	}
	return map[string]interface{}{"kind": "program", "id": p.ID, "path": p.Path, "files": files, "checker": checker, "meta": p.Meta}
}

// hang triage: re-run the case alone in a fresh process, three times, 120 s each.
func confirmHang(p *progenum.Prog) bool {
	data, _ := json.Marshal(progReplay(p, ""))
	f := filepath.Join(harness.WorkDir(), fmt.Sprintf("hang-%d.json", time.Now().UnixNano()))
	os.WriteFile(f, data, 0o644)
	defer os.Remove(f)
	for i := 0; i < 3; i++ {
		res := harness.RunCmd(harness.WorkDir(), nil, 120*time.Second, os.Args[0], "runprog", f)
		if !res.TimedOut {
			return false
		}
	}
	return true
}

func init() { register("runprog", runprog) }

type replayCase struct {
	Case struct {
		Path    string            `json:"path"`
		Files   map[string]string `json:"files"`
		Checker string            `json:"checker"`
		Meta    map[string]string `json:"meta"`
		ID      string            `json:"id"`
		Fakes   map[string]string `json:"fake_packages"`
	} `json:"case"`
	Path    string            `json:"path"`
	Files   map[string]string `json:"files"`
	Checker string            `json:"checker"`
	Fakes   map[string]string `json:"fake_packages"`
}

func loadReplayProg(file string) (*progenum.Prog, string, error) {
	data, err := os.ReadFile(file)
	if err != nil {
		return nil, "", err
	}
	var rc replayCase
	if err := json.Unmarshal(data, &rc); err != nil {
		return nil, "", err
	}
	for k, v := range rc.Case.Fakes {
		registerFake(k, v)
	}
	for k, v := range rc.Fakes {
		registerFake(k, v)
	}
	files, path, checker := rc.Case.Files, rc.Case.Path, rc.Case.Checker
	if len(files) == 0 {
		files, path, checker = rc.Files, rc.Path, rc.Checker
	}
	var names []string
	for n := range files {
		names = append(names, n)
	}
	sort.Strings(names)
	p := &progenum.Prog{ID: rc.Case.ID, Path: path, Meta: rc.Case.Meta}
	for _, n := range names {
		p.Files = append(p.Files, harness.File{Name: n, Src: files[n]})
	}
	return p, checker, nil
}

// runprog <file.json> runs all (or the named) checkers over the program, printing diagnostics and crashes.
func runprog(args []string) int {
	if len(args) < 1 {
		return 2
	}
	installFakeResolver()
	p, checker, err := loadReplayProg(args[0])
	if err != nil {
		fmt.Fprintln(os.Stderr, err)
		return 2
	}
	var names []string
	if checker != "" && checker != "SetFileInfo" {
		names = []string{checker}
	}
	pk := harness.Load(p.Path, p.Files)
	for _, e := range pk.Errs {
		fmt.Println("type error:", e)
	}
	set, err := harness.NewSet(harness.Infos(names), "")
	if err != nil {
		fmt.Fprintln(os.Stderr, err)
		return 2
	}
	diags, crashes := set.VisitAll(pk)
	for _, d := range diags {
		fmt.Println(d.String())
	}
	for _, c := range crashes {
		fmt.Printf("CRASH %s: %s at %s\n", c.Checker, c.Value, c.Frame)
	}
	if len(crashes) > 0 {
		return 1
	}
	return 0
}

var _ = linter.GetCheckersInfo

package main

import (
	"encoding/json"
	"fmt"
	"os"
	"os/exec"
	"path/filepath"
	"sort"
	"strings"
	"sync"
	"time"

	"verif/mc/internal/evidence"
	"verif/mc/internal/harness"
)

func init() { register("C02", c02) }

type c02Result struct {
	Executions int            `json:"executions"`
	Scenarios  int            `json:"scenarios"`
	WithChoice int            `json:"scenarios_with_choice"`
	Company    int            `json:"company_scenarios"`
	CompanyNT  int            `json:"company_scenarios_with_diagnostics"`
	ChoicePts  int            `json:"choice_points"`
	Capped     int            `json:"capped_choice_points"`
	SitesHit   map[string]int `json:"sites_hit_with_2plus_keys"`
	SitesSeen  map[string]int `json:"sites_seen"`
	Violations []struct {
		Key      string      `json:"key"`
		What     string      `json:"what"`
		Observed string      `json:"observed"`
		Replay   interface{} `json:"replay"`
	} `json:"violations"`
	Samples     []interface{} `json:"samples"`
	DistinctObs int           `json:"distinct_observations"`
}

// buildMapOrderVariant instruments the current tree (map ranges -> verifmcrt.MapKeys) and builds a
// harness main package against it. Returns the binary and the site inventory.
func buildMapOrderVariant(mainPkg string) (bin string, sites []map[string]interface{}, err error) {
	mcDir := filepath.Join(evidence.Root, "mc")
	work := filepath.Join(harness.WorkDir(), "maporder")
	os.MkdirAll(work, 0o755)
	vinstr := filepath.Join(work, "vinstr")
	cmd := exec.Command("go", "build", "-o", vinstr, "./cmd/vinstr")
	cmd.Dir = mcDir
	cmd.Env = harness.GoEnv()
	if b, e := cmd.CombinedOutput(); e != nil {
		return "", nil, fmt.Errorf("build vinstr: %v\n%s", e, b)
	}
	res := harness.RunCmd(mcDir, harness.GoEnv(), 5*time.Minute, vinstr, "-repo", harness.RepoDir, "-out", work,
		"-mcrt", filepath.Join(evidence.Root, "overlays", "mcrt"), "-maprange", "-extra", harness.Overlay())
	if res.Exit != 0 {
		return "", nil, fmt.Errorf("vinstr: %s%s", res.Stdout, res.Stderr)
	}
	data, _ := os.ReadFile(filepath.Join(work, "sites.json"))
	json.Unmarshal(data, &sites)
	bin = filepath.Join(work, filepath.Base(mainPkg))
	cmd = exec.Command("go", "build", "-tags", "verif", "-overlay", filepath.Join(work, "overlay.json"), "-o", bin, mainPkg)
	cmd.Dir = mcDir
	cmd.Env = harness.GoEnv()
	if b, e := cmd.CombinedOutput(); e != nil {
		return "", nil, fmt.Errorf("build %s with map-order overlay: %v\n%s", mainPkg, e, b)
	}
	return bin, sites, nil
}

func c02(args []string) int {
	ev := evidence.New("C02", "model_checking")
	tier := evidence.Tier()
	bin, sites, err := buildMapOrderVariant("./cmd/c02x")
	if err != nil {
		fmt.Fprintln(os.Stderr, err)
		return 2
	}
	nshard := 12
	var wg sync.WaitGroup
	results := make([]c02Result, nshard)
	fail := make([]string, nshard)
	for i := 0; i < nshard; i++ {
		wg.Add(1)
		go func(i int) {
			defer wg.Done()
			out := filepath.Join(harness.WorkDir(), fmt.Sprintf("c02-shard-%d.json", i))
			res := harness.RunCmd(harness.WorkDir(), append(os.Environ(), "VERIF_REPO="+harness.RepoDir), 40*time.Minute, bin,
				"-shard", fmt.Sprint(i), "-nshard", fmt.Sprint(nshard), "-tier", tier, "-out", out)
			data, rerr := os.ReadFile(out)
			if res.Exit != 0 || rerr != nil || json.Unmarshal(data, &results[i]) != nil {
				fail[i] = fmt.Sprintf("shard %d exit=%d timedOut=%v\n%s", i, res.Exit, res.TimedOut, string(tail([]byte(res.Stderr), 2000)))
			}
		}(i)
	}
	wg.Wait()
	for _, f := range fail {
		if f != "" {
			fmt.Fprintln(os.Stderr, "c02x failed (broken check):", f)
			return 2
		}
	}
	hit := map[string]int{}
	seen := map[string]int{}
	var states, transitions, choice, capped, withChoice, distinct, company, companyNT int
	for _, r := range results {
		states += r.Scenarios
		transitions += r.Executions
		choice += r.ChoicePts
		capped += r.Capped
		withChoice += r.WithChoice
		company += r.Company
		companyNT += r.CompanyNT
		distinct += r.DistinctObs
		for k, v := range r.SitesHit {
			hit[k] += v
		}
		for k, v := range r.SitesSeen {
			seen[k] += v
		}
		for _, v := range r.Violations {
			ev.Violate(evidence.Violation{Key: v.Key, What: v.What, Observed: v.Observed, Replay: v.Replay})
		}
		for _, s := range r.Samples {
			ev.Sample(s)
		}
	}
	ev.Eval(transitions)
	for i := 0; i < withChoice; i++ {
		ev.Nontrivial(fmt.Sprint("scenario-with-choice-", i))
	}
	var inventory, uncovered []string
	for _, s := range sites {
		id := fmt.Sprint(s["id"])
		line := fmt.Sprintf("site %s %v (%v) key %v: visits=%d visits_with_2plus_keys=%d", id, s["pos"], s["func"], s["key_type"], seen[id], hit[id])
		inventory = append(inventory, line)
		if hit[id] == 0 {
			uncovered = append(uncovered, line)
		}
	}
	sort.Strings(uncovered)
	ev.Set("map_range_sites", inventory)
	ev.Set("sites_not_reached_with_2plus_keys", uncovered)
	ev.Set("choice_points", choice)
	ev.Set("choice_points_capped_permutations", capped)
	if capped > 0 {
		ev.Cap(fmt.Sprintf("%d choice points had more than 4 keys: rotations, reversal and adjacent transpositions only", capped))
	}
	ev.Set("distinct_observations", distinct)
	ev.Set("checker_company_scenarios", company)
	ev.Set("checker_company_scenarios_with_diagnostics", companyNT)
	if companyNT > 0 {
		ev.Nontrivial("checker-company")
	}

	// cross-process leg on the uninstrumented binaries (conformance; real map randomisation)
	c02real(ev, tier, &states, &transitions)

	ev.Set("states", states)
	ev.Set("transitions", transitions)
	ev.Set("traces_validated_against_impl", transitions)
	ev.Set("deviation_bound", map[string]int{"quick": 1, "thorough": 2}[tier])
	ev.Set("rule", "state = scenario (program analysed by all checkers on a long-lived set; registry listing); transition = one execution under a map-order plan. Every dynamic visit of every map-range site is a choice point; every permutation of its keys (<=4 keys; else rotations/reversal/adjacent swaps) is explored as one deviation from the canonical order (thorough: all pairs of deviations). Each execution runs the real, rewritten go-critic code, so traces_validated_against_impl = transitions. Second environment choice per program: the company a checker runs in - registration order on the long-lived set vs reverse order on a fresh context (for every ordered pair of checkers one of the two runs has the one before the other). Goroutine timing is explored in C04.")
	ev.Assume("map ranges in third-party code (go-ruleguard, go/types) are not instrumented; they are covered only by the repeated real-binary runs")
	return ev.Finish()
}

func c02real(ev *evidence.Run, tier string, states, transitions *int) {
	ws := filepath.Join(harness.WorkDir(), "c02ws")
	writeTree(ws, map[string]string{
		"go.mod": "module w\n\ngo 1.21\n",
		"a/a.go": strings.Replace(c03Extra1, "package extra1", "package a", 1),
		"a/d.go": "package a\n\nimport (\n\t\"fmt\"\n\tf2 \"fmt\"\n\t\"os\"\n\to2 \"os\"\n)\n\nfunc dd(fmt3 int) { fmt.Println(f2.Sprint(), os.Args, o2.Args) }\n",
		"b/b.go": strings.Replace(c03Extra2, "package extra2", "package b", 1),
		// same-named function-local types of different sizes, sized by several checkers (shared-state races
		// between concurrently running checkers show up as run-to-run differences)
		"b/l.go": c02LocalTypes,
		// an in-package test file: the analysis drivers run a second pass over "a [a.test]" that shares the
		// syntax trees of the non-test files with the pass over "a"
		"a/a_test.go": "package a\n\nimport \"testing\"\n\nfunc TestA(t *testing.T) {\n\tx, y := 1, 2\n\tx = x + y\n\t_ = x\n}\n",
	})
	n := 12
	if tier == "thorough" {
		n = 24
	}
	for _, b := range []struct {
		pkg  string
		args []string
	}{
		{"./cmd/go-critic", []string{"check", "-enableAll", "./..."}},
		{"./cmd/gocritic", []string{"check", "-enableAll", "-@ruleguard.failOn=zzz,yyy", "-@ruleguard.rules=x.go", "./..."}},
		{"./cmd/go-critic-analysis", []string{"-enable-all", "./..."}},
	} {
		bin, err := harness.BuildBin(b.pkg)
		if err != nil {
			fmt.Fprintln(os.Stderr, err)
			os.Exit(2)
		}
		var first string
		*states++
		for i := 0; i < n; i++ {
			res := harness.RunCmd(ws, harness.GoEnv(), 3*time.Minute, bin, b.args...)
			obs := fmt.Sprintf("exit=%d\n%s\n--\n%s", res.Exit, res.Stdout, res.Stderr)
			ev.Eval(1)
			*transitions++
			if i == 0 {
				first = obs
				if len(res.Stderr) < 20 {
					fmt.Fprintln(os.Stderr, "c02real: no output from", b.pkg)
					os.Exit(2)
				}
				ev.Nontrivial("real|" + b.pkg)
				continue
			}
			if obs != first {
				ev.Violate(evidence.Violation{Key: "cross-process|" + filepath.Base(b.pkg), What: "two processes with identical arguments print different output", Observed: diffFirst(first, obs), Replay: map[string]interface{}{"argv": b.args, "binary": b.pkg}})
				break
			}
		}
	}
}

const c02LocalTypes = `package b

func sumBig(k int) int {
	type rec struct{ a [200]int }
	xs := make([]rec, 2)
	var arr [4]rec
	n := 0
	for _, x := range xs {
		n += x.a[0]
	}
	for _, x := range arr {
		n += x.a[0]
	}
	return n + k
}

func sumSmall(k int) int {
	type rec struct{ a [1]int }
	xs := make([]rec, 2)
	var arr [4]rec
	n := 0
	for _, x := range xs {
		n += x.a[0]
	}
	for _, x := range arr {
		n += x.a[0]
	}
	return n + k
}

func sumMid(k int) int {
	type rec struct{ a [20]int }
	var arr [4]rec
	n := 0
	for _, x := range arr {
		n += x.a[0]
	}
	return n + k
}
`

func diffFirst(a, b string) string {
	al, bl := strings.Split(a, "\n"), strings.Split(b, "\n")
	for i := 0; i < len(al) || i < len(bl); i++ {
		var x, y string
		if i < len(al) {
			x = al[i]
		}
		if i < len(bl) {
			y = bl[i]
		}
		if x != y {
			return fmt.Sprintf("line %d:\n  run 1: %s\n  run k: %s", i+1, x, y)
		}
	}
	return "(equal)"
}

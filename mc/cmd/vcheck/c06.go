package main

import (
	"fmt"
	"os"
	"path/filepath"
	"regexp"
	"sort"
	"strings"
	"sync"
	"time"

	"verif/mc/internal/evidence"
	"verif/mc/internal/harness"
)

func init() { register("C06", c06) }

// selection configuration, front-end independent
type selCfg struct {
	Enable    []string // nil = flag absent
	Disable   []string // nil = flag absent
	EnableAll bool
}

func (c selCfg) String() string {
	f := func(l []string) string {
		if l == nil {
			return "<absent>"
		}
		return "[" + strings.Join(l, ",") + "]"
	}
	return fmt.Sprintf("enable=%s disable=%s enableAll=%v", f(c.Enable), f(c.Disable), c.EnableAll)
}

func (c selCfg) argv(frontend string) []string {
	var a []string
	if c.Enable != nil {
		a = append(a, "-enable="+strings.Join(c.Enable, ","))
	}
	if c.Disable != nil {
		a = append(a, "-disable="+strings.Join(c.Disable, ","))
	}
	if c.EnableAll {
		if frontend == "analyzer" {
			a = append(a, "-enable-all")
		} else {
			a = append(a, "-enableAll")
		}
	}
	return a
}

func hasAny(tags []string, set ...string) bool {
	for _, t := range tags {
		for _, s := range set {
			if t == s {
				return true
			}
		}
	}
	return false
}

// specSelected is the executable specification of the property's selection rule.
func specSelected(reg map[string][]string, c selCfg) map[string]bool {
	enable := c.Enable
	if enable == nil { // no flag: exactly the checkers without the four tags
		for name, tags := range reg {
			if !hasAny(tags, "experimental", "opinionated", "performance", "security") {
				enable = append(enable, name)
			}
		}
	}
	inList := func(list []string, name string, tags []string) bool {
		for _, k := range list {
			if strings.HasPrefix(k, "#") {
				if hasAny(tags, k[1:]) {
					return true
				}
			} else if k == name {
				return true
			}
		}
		return false
	}
	out := map[string]bool{}
	for name, tags := range reg {
		out[name] = (c.EnableAll || inList(enable, name, tags)) && !inList(c.Disable, name, tags)
	}
	return out
}

// boolVec describes which of the five deciding booleans hold for one checker under one configuration.
func boolVec(name string, tags []string, c selCfg) string {
	nE, tE, nD, tD := 0, 0, 0, 0
	for _, k := range c.Enable {
		if k == name {
			nE = 1
		} else if strings.HasPrefix(k, "#") && hasAny(tags, k[1:]) {
			tE = 1
		}
	}
	for _, k := range c.Disable {
		if k == name {
			nD = 1
		} else if strings.HasPrefix(k, "#") && hasAny(tags, k[1:]) {
			tD = 1
		}
	}
	ea := 0
	if c.EnableAll {
		ea = 1
	}
	abs := ""
	if c.Enable == nil {
		abs += ",enable-absent"
	}
	if c.Disable == nil {
		abs += ",disable-absent"
	}
	return fmt.Sprintf("EA=%d,nE=%d,tE=%d,nD=%d,tD=%d%s", ea, nE, tE, nD, tD, abs)
}

type feResp struct {
	Selected    []string            `json:"selected"`
	Constructed []string            `json:"constructed"`
	Err         string              `json:"err"`
	Panic       string              `json:"panic"`
	Log         string              `json:"log"`
	Lines       []string            `json:"lines"`
	Registry    map[string][]string `json:"registry"`
	// analyzer
	Passes []struct {
		Diags []string `json:"diags"`
		Err   string   `json:"err"`
		Panic string   `json:"panic"`
	} `json:"passes"`
	ParseErr string `json:"parse_err"`
}

type frontend struct {
	name string
	bin  string
	env  []string
}

func (fe *frontend) start() *harness.RPC {
	r, err := harness.StartRPC(fe.bin, harness.WorkDir(), fe.env)
	if err != nil {
		fmt.Fprintln(os.Stderr, "start rpc:", err)
		os.Exit(2)
	}
	return r
}

func (fe *frontend) call(r *harness.RPC, c selCfg, run bool) feResp {
	var resp feResp
	var err error
	if fe.name == "analyzer" {
		args := append([]string{"-debug-init"}, c.argv("analyzer")...)
		err = r.Call(map[string]interface{}{"op": "run", "args": args}, &resp)
		if len(resp.Passes) > 0 {
			resp.Err = resp.Passes[0].Err
			resp.Panic = resp.Passes[0].Panic
			for _, d := range resp.Passes[0].Diags {
				resp.Lines = append(resp.Lines, d)
			}
		}
		if resp.ParseErr != "" {
			resp.Err = resp.ParseErr
		}
	} else {
		err = r.Call(map[string]interface{}{"op": "init", "args": c.argv("cli"), "run": run}, &resp)
	}
	if err != nil {
		fmt.Fprintf(os.Stderr, "%s rpc: %v\n", fe.name, err)
		os.Exit(2)
	}
	return resp
}

// feRespWithExtra is call() with one more raw flag appended.
func feRespWithExtra(fe *frontend, r *harness.RPC, c selCfg, extra string) feResp {
	var resp feResp
	var err error
	if fe.name == "analyzer" {
		args := append(append([]string{"-debug-init"}, c.argv("analyzer")...), extra)
		err = r.Call(map[string]interface{}{"op": "run", "args": args}, &resp)
		if len(resp.Passes) > 0 {
			resp.Err = resp.Passes[0].Err
			resp.Panic = resp.Passes[0].Panic
		}
		if resp.ParseErr != "" {
			resp.Err = resp.ParseErr
		}
	} else {
		err = r.Call(map[string]interface{}{"op": "init", "args": append(c.argv("cli"), extra)}, &resp)
	}
	if err != nil {
		fmt.Fprintf(os.Stderr, "%s rpc: %v\n", fe.name, err)
		os.Exit(2)
	}
	return resp
}

func (fe *frontend) registry() map[string][]string {
	r := fe.start()
	defer r.Close()
	var resp feResp
	op := "registry"
	if fe.name == "analyzer" {
		op = "registered"
	}
	if err := r.Call(map[string]interface{}{"op": op}, &resp); err != nil {
		fmt.Fprintln(os.Stderr, "registry rpc:", err)
		os.Exit(2)
	}
	return resp.Registry
}

var lineCheckerRE = regexp.MustCompile(`^[^ ]+: (\w+): `)

func c06(args []string) int {
	ev := evidence.New("C06", "exploration")
	tier := evidence.Tier()
	ev.Assume("the selection rule of the property text is the oracle: run(c) = (EA or name in E or tags meet E) and name not in D and tags do not meet D; absent -enable means the checkers without experimental/opinionated/performance/security")
	ev.Assume("list entries with surrounding blanks are outside the alphabet (the property does not say whether ' b' lists 'b')")

	goc, err1 := harness.BuildInstr("./cmd/go-critic")
	gocr, err2 := harness.BuildInstr("./cmd/gocritic")
	anr, err3 := harness.BuildHarnessBin("./cmd/anrpc")
	for _, e := range []error{err1, err2, err3} {
		if e != nil {
			fmt.Fprintln(os.Stderr, e)
			return 2
		}
	}
	small := []string{"VERIF_RPC=1", "VERIF_PROBES=1", "VERIF_RPC_NOEMBED=1"}
	full := []string{"VERIF_RPC=1", "VERIF_PROBES=1"}
	fes := []*frontend{
		{"go-critic", goc, small}, {"gocritic", gocr, small}, {"analyzer", anr, []string{"VERIF_PROBES=1"}},
	}
	fesFull := []*frontend{{"go-critic", goc, full}, {"gocritic", gocr, full}}

	var mu sync.Mutex
	check := func(fe *frontend, reg map[string][]string, c selCfg, resp feResp, ran bool) {
		ev.Eval(1)
		replay := map[string]interface{}{"frontend": fe.name, "config": c.String(), "argv": c.argv(fe.name)}
		if resp.Panic != "" {
			ev.Violate(evidence.Violation{Key: fe.name + "|panic", What: "front-end panicked while selecting checkers", Observed: resp.Panic, Replay: replay})
			return
		}
		want := specSelected(reg, c)
		nsel := 0
		for _, w := range want {
			if w {
				nsel++
			}
		}
		got := map[string]bool{}
		for _, s := range resp.Selected {
			if got[s] {
				ev.Violate(evidence.Violation{Key: fe.name + "|selected-twice", What: fe.name + ": a checker selected through several keys is instantiated more than once (its diagnostics would be printed once per instance)", Observed: c.String() + " -> " + s + " twice", Replay: replay})
			}
			got[s] = true
		}
		if nsel == 0 && len(got) == 0 {
			if resp.Err == "" {
				ev.Violate(evidence.Violation{Key: fe.name + "|empty-selection-accepted", What: fe.name + ": an empty checker selection is not an error", Observed: c.String() + " -> no error", Replay: replay})
			}
			return
		}
		if resp.Err != "" && nsel != 0 && strings.Contains(resp.Err, "empty checkers set") {
			// the front-end computed an empty selection of its own: report the per-checker disagreement below
			got = map[string]bool{}
		} else if resp.Err != "" && nsel != 0 {
			ev.Violate(evidence.Violation{Key: fe.name + "|unexpected-error", What: fe.name + ": non-empty selection rejected", Observed: c.String() + " -> " + resp.Err, Replay: replay})
			return
		}
		names := make([]string, 0, len(reg))
		for n := range reg {
			names = append(names, n)
		}
		sort.Strings(names)
		for _, n := range names {
			if want[n] != got[n] {
				key := fmt.Sprintf("%s|want=%v,got=%v|%s", fe.name, want[n], got[n], boolVec(n, reg[n], c))
				ev.Violate(evidence.Violation{Key: key, What: fmt.Sprintf("%s: selection rule says run=%v but front-end has run=%v", fe.name, want[n], got[n]),
					Observed: fmt.Sprintf("%s; checker %s tags %v", c.String(), n, reg[n]), Replay: replay})
			}
		}
		// probes: constructor called iff selected
		cons := map[string]bool{}
		for _, n := range resp.Constructed {
			if cons[n] {
				ev.Violate(evidence.Violation{Key: fe.name + "|probe-constructed-twice", What: "a checker constructor ran twice for one initialisation", Observed: c.String() + " " + n, Replay: replay})
			}
			cons[n] = true
		}
		for _, n := range names {
			if strings.HasPrefix(n, "vprobe") && cons[n] != got[n] {
				ev.Violate(evidence.Violation{Key: fmt.Sprintf("%s|probe-constructed=%v,selected=%v", fe.name, cons[n], got[n]), What: "checker initialised although not selected (or selected but not initialised)", Observed: c.String() + " " + n, Replay: replay})
			}
		}
		if ran {
			seenProbe := map[string]int{}
			for _, l := range resp.Lines {
				m := lineCheckerRE.FindStringSubmatch(l)
				if m == nil {
					continue
				}
				if !got[m[1]] {
					ev.Violate(evidence.Violation{Key: fe.name + "|diag-from-unselected", What: "diagnostic attributed to a checker that is not selected", Observed: c.String() + " " + l, Replay: replay})
				}
				seenProbe[m[1]]++
			}
			for _, n := range names {
				if strings.HasPrefix(n, "vprobe") && got[n] && seenProbe[n] != 1 {
					ev.Violate(evidence.Violation{Key: fe.name + "|selected-probe-silent", What: "selected probe checker did not report exactly once", Observed: fmt.Sprintf("%s %s x%d", c.String(), n, seenProbe[n]), Replay: replay})
				}
			}
		}
		mu.Lock()
		mu.Unlock()
	}

	// ------------------------------------------------------------------ leg A: list algebra
	regs := map[string]map[string][]string{}
	for _, fe := range fes {
		regs[fe.name] = fe.registry()
		if len(regs[fe.name]) < 20 {
			fmt.Fprintf(os.Stderr, "%s registry too small: %d\n", fe.name, len(regs[fe.name]))
			return 2
		}
	}
	// key alphabet: tags, one representative name per distinct tag set, unknowns, empty entry
	keyAlphabet := func(reg map[string][]string, perSet int) []string {
		keys := []string{"#diagnostic", "#style", "#performance", "#security", "#experimental", "#opinionated"}
		var names []string
		for n := range reg {
			names = append(names, n)
		}
		sort.Strings(names)
		seen := map[string]int{}
		for _, n := range names {
			ts := append([]string{}, reg[n]...)
			sort.Strings(ts)
			k := strings.Join(ts, ",")
			if seen[k] < perSet {
				seen[k]++
				keys = append(keys, n)
			}
		}
		return append(keys, "nosuchchecker", "#nosuchtag", "", "style", "diagnostic", "experimental", "#vprobeDiag", "#vprobePerf")
	}
	lists := func(keys []string) [][]string {
		out := [][]string{nil, {}} // absent, explicit empty
		for i := range keys {
			out = append(out, []string{keys[i]})
		}
		for i := range keys {
			for j := range keys {
				if i != j {
					out = append(out, []string{keys[i], keys[j]})
				}
			}
		}
		return out
	}
	for _, fe := range fes {
		reg := regs[fe.name]
		var keys []string
		if tier == "quick" {
			// tags + probes only as names (probes realise every tag set incl. security) + specials
			keys = []string{"#diagnostic", "#style", "#performance", "#security", "#experimental", "#opinionated",
				"vprobeDiag", "vprobeSec", "vprobeStyleOpinExp", "vprobePerf", "nosuchchecker", "#nosuchtag", "",
				// entries that are valid only in the other namespace: a bare tag word, a checker name behind '#'
				"style", "#vprobeDiag"}
		} else {
			keys = keyAlphabet(reg, 1)
		}
		ls := lists(keys)
		var cfgs []selCfg
		for _, e := range ls {
			for _, d := range ls {
				for _, ea := range []bool{false, true} {
					cfgs = append(cfgs, selCfg{e, d, ea})
				}
			}
		}
		ev.Set("legA_keys_"+fe.name, len(keys))
		ev.Set("legA_configs_"+fe.name, len(cfgs))
		nw := 5
		var wg sync.WaitGroup
		for w := 0; w < nw; w++ {
			wg.Add(1)
			go func(w int) {
				defer wg.Done()
				r := fe.start()
				defer r.Close()
				for i := w; i < len(cfgs); i += nw {
					run := i%7 == 0
					resp := fe.call(r, cfgs[i], run)
					check(fe, reg, cfgs[i], resp, run || fe.name == "analyzer")
					ev.Nontrivial(fmt.Sprintf("%s|%d", fe.name, i))
				}
			}(w)
		}
		wg.Wait()
		ev.Sample(map[string]interface{}{"frontend": fe.name, "config": cfgs[len(cfgs)/3].String(), "argv": cfgs[len(cfgs)/3].argv(fe.name)})
	}

	// ------------------------------------------------------------------ leg B: every (representative) real checker, full registry
	for _, fe := range append(fesFull, fes[2]) {
		reg := fe.registry()
		var names []string
		for n := range reg {
			names = append(names, n)
		}
		sort.Strings(names)
		var subjects []string
		if tier == "quick" {
			seen := map[string]bool{}
			for i := len(names) - 1; i >= 0; i-- { // from the end: mixes embedded and hand-written
				ts := append([]string{}, reg[names[i]]...)
				sort.Strings(ts)
				k := strings.Join(ts, ",")
				if !seen[k] {
					seen[k] = true
					subjects = append(subjects, names[i])
				}
			}
		} else {
			subjects = names
		}
		var cfgs []selCfg
		for _, n := range subjects {
			tagOpts := append([]string{""}, reg[n]...)
			for _, ea := range []bool{false, true} {
				if ea && tier == "quick" && fe.name != "analyzer" {
					continue // enable-all over the full registry constructs ~100 engines per call; thorough only
				}
				for _, nE := range []bool{false, true} {
					for _, tE := range tagOpts {
						for _, nD := range []bool{false, true} {
							for _, tD := range tagOpts {
								c := selCfg{Enable: []string{}, Disable: []string{}, EnableAll: ea}
								if nE {
									c.Enable = append(c.Enable, n)
								}
								if tE != "" {
									c.Enable = append(c.Enable, "#"+tE)
								}
								if nD {
									c.Disable = append(c.Disable, n)
								}
								if tD != "" {
									c.Disable = append(c.Disable, "#"+tD)
								}
								cfgs = append(cfgs, c)
							}
						}
					}
				}
			}
		}
		// plus the no-flag default and enable-all alone
		cfgs = append(cfgs, selCfg{}, selCfg{EnableAll: true})
		ev.Set("legB_subjects_"+fe.name, len(subjects))
		ev.Set("legB_configs_"+fe.name, len(cfgs))
		nw := 8
		var wg sync.WaitGroup
		for w := 0; w < nw; w++ {
			wg.Add(1)
			go func(w int) {
				defer wg.Done()
				r := fe.start()
				defer r.Close()
				for i := w; i < len(cfgs); i += nw {
					resp := fe.call(r, cfgs[i], false)
					check(fe, reg, cfgs[i], resp, fe.name == "analyzer")
					ev.Nontrivial(fmt.Sprintf("B|%s|%d", fe.name, i))
				}
			}(w)
		}
		wg.Wait()
	}

	// ------------------------------------------------------------------ leg E: parameters of checkers that are not selected are inert
	// For two selections (default; one named checker) and every registered parameter x small value domain: when
	// the parameter's checker is not selected, giving the flag must not change the outcome in any way.
	{
		type pflag struct{ checker, flag string }
		var pflags []pflag
		for _, in := range harness.Infos(nil) {
			var pn []string
			for k := range in.Params {
				pn = append(pn, k)
			}
			sort.Strings(pn)
			for _, k := range pn {
				var vals []string
				switch in.Params[k].Value.(type) {
				case int:
					vals = []string{"-1", "0", "2147483647"}
				case bool:
					vals = []string{"true", "false"}
				case string:
					vals = []string{"", "bogus", "x,y"}
				}
				for _, v := range vals {
					pflags = append(pflags, pflag{in.Name, fmt.Sprintf("-@%s.%s=%s", in.Name, k, v)})
				}
			}
		}
		for _, v := range []string{"-1", "0", "9"} {
			pflags = append(pflags, pflag{"vprobePerf", "-@vprobePerf.p=" + v}, pflag{"vprobeDiagExp", "-@vprobeDiagExp.p=" + v})
		}
		ev.Set("inert_parameter_flags", len(pflags))
		sels := []selCfg{{}, {Enable: []string{"assignOp"}, Disable: []string{}}, {Enable: []string{"#diagnostic"}, Disable: []string{"#experimental"}}}
		for _, fe := range append(fesFull, fes[2]) {
			r := fe.start()
			for _, c := range sels {
				base := fe.call(r, c, false)
				baseSel := strings.Join(base.Selected, ",")
				selected := map[string]bool{}
				for _, n := range base.Selected {
					selected[n] = true
				}
				if fe.name == "analyzer" {
					// the analyzer RPC reports what ran through diagnostics of the probes only; compare error state
					baseSel = ""
				}
				for _, pf := range pflags {
					if selected[pf.checker] {
						continue
					}
					if fe.name == "analyzer" && strings.HasPrefix(pf.checker, "vprobe") {
						continue
					}
					c2 := c
					resp := feRespWithExtra(fe, r, c2, pf.flag)
					ev.Eval(1)
					ev.Nontrivial("inert|" + fe.name + "|" + c.String() + "|" + pf.flag)
					got := strings.Join(resp.Selected, ",")
					if fe.name == "analyzer" {
						got = ""
					}
					if resp.Err != base.Err || resp.Panic != base.Panic || got != baseSel || strings.Join(resp.Constructed, ",") != strings.Join(base.Constructed, ",") {
						ev.Violate(evidence.Violation{Key: fe.name + "|parameter-of-unselected-checker-not-inert|" + pf.checker, What: fe.name + ": a parameter of a checker that is not selected changes the outcome of the run",
							Observed: fmt.Sprintf("%s with %s\nwithout the flag: err=%q selected=%d\nwith the flag:    err=%q panic=%q selected=%d", c.String(), pf.flag, base.Err, len(base.Selected), resp.Err, resp.Panic, len(resp.Selected)),
							Replay:   map[string]interface{}{"frontend": fe.name, "config": c.String(), "argv": append(c.argv(fe.name), pf.flag)}})
					}
				}
			}
			r.Close()
		}
	}

	// ------------------------------------------------------------------ leg C: real binaries, real flag parsing
	c06real(ev, tier)

	// ------------------------------------------------------------------ leg D: docs agree with the rule
	// README tag table / overview marks are compared in C17 (default marks); here: the CLI default list equals the rule
	ev.Set("rule", "all enable lists x disable lists of size <=2 (plus flag absent, explicit empty) over the key alphabet x enable-all, on the real initCheckers of both CLI binaries (RPC through overlay) and the real analyzer filter (public Flags + Run); per checker 32 boolean combinations on the full registry; real binaries with real flag parsing on a workspace. non-trivial = distinct (front-end, configuration)")
	return ev.Finish()
}

var isEnabledRE = regexp.MustCompile(`debug: (\w+) is enabled`)

func c06real(ev *evidence.Run, tier string) {
	bins := map[string]string{}
	for name, pkg := range map[string]string{"go-critic": "./cmd/go-critic", "gocritic": "./cmd/gocritic", "go-critic-analysis": "./cmd/go-critic-analysis", "gocritic-analysis": "./cmd/gocritic-analysis"} {
		b, err := harness.BuildBin(pkg)
		if err != nil {
			fmt.Fprintln(os.Stderr, err)
			os.Exit(2)
		}
		bins[name] = b
	}
	ws := filepath.Join(harness.WorkDir(), "c06ws")
	os.MkdirAll(ws, 0o755)
	os.WriteFile(filepath.Join(ws, "go.mod"), []byte("module w\n\ngo 1.21\n"), 0o644)
	// file that triggers a default checker (assignOp, style), an opinionated one (ptrToRefParam? use paramTypeCombine) and a performance one (hugeParam)
	os.WriteFile(filepath.Join(ws, "a.go"), []byte(`package w

func F(a int, b int, big [4096]byte) int {
	a = a + b
	return a + int(big[0])
}
`), 0o644)
	harness.Init()
	reg := map[string][]string{}
	for _, in := range harness.Infos(nil) {
		reg[in.Name] = in.Tags
	}
	keys := []string{"#diagnostic", "#style", "#performance", "#experimental", "#opinionated", "assignOp", "hugeParam", "paramTypeCombine", "nosuchchecker", "style", "#assignOp"}
	var cfgs []selCfg
	cfgs = append(cfgs, selCfg{}, selCfg{EnableAll: true})
	for _, e := range keys {
		cfgs = append(cfgs, selCfg{Enable: []string{e}})
		for _, d := range keys {
			if tier == "thorough" || (len(cfgs)%3 == 0) {
				cfgs = append(cfgs, selCfg{Enable: []string{e}, Disable: []string{d}})
			}
		}
		cfgs = append(cfgs, selCfg{Disable: []string{e}, EnableAll: true})
	}
	type job struct {
		fe  string
		cfg selCfg
	}
	var jobs []job
	for _, c := range cfgs {
		for _, fe := range []string{"go-critic", "gocritic", "go-critic-analysis", "gocritic-analysis"} {
			jobs = append(jobs, job{fe, c})
		}
	}
	ev.Set("legC_process_runs", len(jobs))
	var wg sync.WaitGroup
	sem := make(chan struct{}, 12)
	for _, j := range jobs {
		wg.Add(1)
		sem <- struct{}{}
		go func(j job) {
			defer wg.Done()
			defer func() { <-sem }()
			var res harness.RunResult
			analysis := strings.HasSuffix(j.fe, "-analysis")
			if analysis {
				a := append([]string{"-debug-init"}, j.cfg.argv("analyzer")...)
				res = harness.RunCmd(ws, harness.GoEnv(), 2*time.Minute, bins[j.fe], append(a, "./...")...)
			} else {
				a := append([]string{"check", "-v"}, j.cfg.argv("cli")...)
				res = harness.RunCmd(ws, harness.GoEnv(), 2*time.Minute, bins[j.fe], append(a, "./...")...)
			}
			ev.Eval(1)
			ev.Nontrivial("C|" + j.fe + "|" + j.cfg.String())
			feName := j.fe
			specReg := reg
			if analysis {
				// the analyzer's own registry lacks the rule-based checkers (C08's subject); judge it on what it offers
				specReg = map[string][]string{}
				for n, t := range reg {
					if !harnessEmbedded[n] {
						specReg[n] = t
					}
				}
			}
			replay := map[string]interface{}{"frontend": j.fe, "argv": j.cfg.argv(map[bool]string{true: "analyzer", false: "cli"}[analysis]), "workspace": "module w; a.go"}
			if strings.Contains(res.Stderr, "panic:") || strings.Contains(res.Stderr, "goroutine ") {
				ev.Violate(evidence.Violation{Key: feName + "|real|panic", What: "binary panicked", Observed: res.Stderr, Replay: replay})
				return
			}
			want := specSelected(specReg, j.cfg)
			got := map[string]bool{}
			for _, m := range isEnabledRE.FindAllStringSubmatch(res.Stderr, -1) {
				got[m[1]] = true
			}
			nsel := 0
			for _, w := range want {
				if w {
					nsel++
				}
			}
			if nsel == 0 {
				if res.Exit == 0 {
					ev.Violate(evidence.Violation{Key: feName + "|real|empty-selection-accepted", What: j.fe + ": empty selection exits 0", Observed: j.cfg.String() + "\n" + res.Stderr, Replay: replay})
				}
				return
			}
			var names []string
			for n := range specReg {
				names = append(names, n)
			}
			sort.Strings(names)
			for _, n := range names {
				if want[n] != got[n] {
					key := fmt.Sprintf("%s|real|want=%v,got=%v|%s", feName, want[n], got[n], boolVec(n, specReg[n], j.cfg))
					ev.Violate(evidence.Violation{Key: key, What: fmt.Sprintf("%s: selection rule says run=%v, binary has run=%v", j.fe, want[n], got[n]), Observed: j.cfg.String() + " checker " + n + fmt.Sprint(specReg[n]), Replay: replay})
				}
			}
			// diagnostics only from selected checkers
			for _, l := range strings.Split(res.Stderr, "\n") {
				if m := regexp.MustCompile(`^\S+\.go:\d+:\d+: (\w+): `).FindStringSubmatch(l); m != nil && !want[m[1]] {
					ev.Violate(evidence.Violation{Key: feName + "|real|diag-from-unselected", What: "diagnostic from an unselected checker", Observed: j.cfg.String() + "\n" + l, Replay: replay})
				}
			}
		}(j)
	}
	wg.Wait()
}

// harnessEmbedded: names of rule-based checkers (filled lazily)
var harnessEmbedded = func() map[string]bool {
	m := map[string]bool{}
	harness.Init()
	for _, in := range harness.Infos(nil) {
		if in.EmbeddedRuleguard {
			m[in.Name] = true
		}
	}
	return m
}()

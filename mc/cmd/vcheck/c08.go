package main

import (
	"fmt"
	"os"
	"path/filepath"
	"sort"
	"strings"
	"sync"
	"time"

	"verif/mc/internal/evidence"
	"verif/mc/internal/harness"
)

func init() { register("C08", c08) }

const c08A = `package a

import (
	"fmt"
	"strings"
)

// F does things.
func F(a int, b int, s string, xs []int, big [4096]byte) (int, string) {
	a = a + b
	if len(xs) >= 0 {
		fmt.Println("x")
	}
	if strings.Index(s, "a") != -1 {
		s = s + "x"
	}
	ys := append(xs, 1)
	_ = ys
	//no space comment
	switch {
	case a > 0:
		fmt.Println(1)
	}
	return a + int(big[0]), s
}

func G(p *struct{ x int }) int { return (*p).x }
`

const c08A2 = `package a

func F2(A int, big [4096]byte) int {
	B := A
	return B + int(big[0])
}

func G2(p *struct{ y int }) int { return (*p).y }

func H2(x, y int) bool {
	if x == 1 {
		return true
	} else if x == 2 {
		return false
	} else if y == 3 {
		return true
	}
	return x == x
}

//another unformatted comment
var V2 = 1
`

const c08ATest = `package a

import "testing"

func TestF(t *testing.T) {
	a, b := 1, 2
	a = a + b
	var arr [1024]byte
	for _, x := range arr {
		_ = x
	}
	_ = a
}
`

const c08AExtTest = `package a_test

import "testing"

func TestExt(t *testing.T) {
	x, y := 1, 2
	x = x * y
	_ = x
}
`

const c08B = `package b

func H(x, y int) bool {
	if x == 1 {
		return true
	} else if x == 2 {
		return false
	} else if y == 3 {
		return true
	}
	return x == x
}
`

const c08C = `package c

import "regexp"

var re = regexp.MustCompile("a|b|c")

func K(m map[string]int) int {
	n := 0
	for k := range m {
		n = n + len(k)
	}
	return n
}

// diagnostics whose text quotes source containing formatting verbs
func P(x, s, d int) (int, bool, bool) {
	return x % x, !(x%s == 0), !(x%d != x%d)
}
`

type c08Cfg struct {
	id            string
	cli, analysis []string
}

func c08(args []string) int {
	ev := evidence.New("C08", "exploration")
	tier := evidence.Tier()
	harness.Init()
	bins := map[string]string{}
	fes := []string{"go-critic", "gocritic", "go-critic-analysis", "gocritic-analysis"}
	for name, pkg := range map[string]string{"go-critic": "./cmd/go-critic", "gocritic": "./cmd/gocritic", "go-critic-analysis": "./cmd/go-critic-analysis", "gocritic-analysis": "./cmd/gocritic-analysis"} {
		b, err := harness.BuildBin(pkg)
		if err != nil {
			fmt.Fprintln(os.Stderr, err)
			return 2
		}
		bins[name] = b
	}
	embedded := harnessEmbedded
	base := filepath.Join(harness.WorkDir(), "c08")
	workspaces := map[string]map[string]string{
		"single":   {"go.mod": "module w\n\ngo 1.21\n", "a/a.go": c08A},
		"intests":  {"go.mod": "module w\n\ngo 1.21\n", "a/a.go": c08A, "a/a2.go": c08A2, "a/a_test.go": c08ATest},
		"exttests": {"go.mod": "module w\n\ngo 1.21\n", "a/a.go": c08A, "a/a_test.go": c08ATest, "a/ext_test.go": c08AExtTest},
		"three":    {"go.mod": "module w\n\ngo 1.21\n", "a/a.go": c08A, "a/a2.go": c08A2, "a/a_test.go": c08ATest, "b/b.go": c08B, "c/c.go": c08C},
	}
	// packages that share their package name and their file base names (two commands, two util packages)
	asPkg := func(src, from, to string) string { return strings.Replace(src, "package "+from, "package "+to, 1) }
	workspaces["samenames"] = map[string]string{"go.mod": "module w\n\ngo 1.21\n",
		"cmd/alpha/main.go": asPkg(c08B, "b", "main") + "\nfunc main() {}\n", "cmd/beta/main.go": asPkg(c08A2, "a", "main") + "\nfunc main() {}\n",
		"x/util/util.go": asPkg(c08A2, "a", "util"), "y/util/util.go": asPkg(c08B, "b", "util"), "z/util/util.go": asPkg(c08A, "a", "util"),
		"x/util/util_test.go": asPkg(c08ATest, "a", "util"), "y/util/util_test.go": asPkg(c08ATest, "a", "util")}
	// package boundary: the last file of one package imports what the first, import-free file of the next
	// package declares as local names (the CLI walks all packages through one shared context)
	workspaces["boundary"] = map[string]string{"go.mod": "module w\n\ngo 1.21\n",
		"alpha/alpha.go": "package alpha\n\nimport (\n\t\"fmt\"\n\t\"os\"\n\t\"path/filepath\"\n\t\"strings\"\n)\n\nfunc A(s string) string {\n\tfmt.Println(os.Args, filepath.Base(s))\n\treturn strings.ToUpper(s)\n}\n",
		"beta/beta.go":   "package beta\n\nfunc B(n int) int {\n\tfmt, os, filepath, strings := n, n+1, n+2, n+3\n\treturn fmt + os + filepath + strings\n}\n",
		"gamma/gamma.go": "package gamma\n\nimport \"sort\"\n\nfunc G(xs []int, fmt int) int {\n\tsort.Ints(xs)\n\tstrings := fmt\n\treturn strings\n}\n",
		"delta/a.go":     "package delta\n\nfunc D(sort, os int) int { return sort + os }\n",
		"delta/b.go":     "package delta\n\nimport \"os\"\n\nfunc E() []string { return os.Args }\n"}
	for name, files := range workspaces {
		writeTree(filepath.Join(base, name), files)
	}
	workspaces["files"] = map[string]string{"go.mod": "module w\n\ngo 1.21\n", "a/a.go": c08A, "a/a2.go": c08A2, "b/b.go": c08B}
	writeTree(filepath.Join(base, "files"), workspaces["files"])
	targets := map[string][]string{"boundary": {"./..."}, "samenames": {"./..."}, "single": {"./..."}, "intests": {"./..."}, "exttests": {"./..."}, "three": {"./..."}, "files": {"./a/a.go", "./a/a2.go"}}
	var cfgs []c08Cfg
	cfgs = append(cfgs,
		c08Cfg{"default", nil, nil},
		c08Cfg{"enable-all", []string{"-enableAll"}, []string{"-enable-all"}},
		c08Cfg{"enable-all-go1.13", []string{"-enableAll", "-go=1.13"}, []string{"-enable-all", "-go=1.13"}},
		c08Cfg{"enable-all-go1.18", []string{"-enableAll", "-go=go1.18"}, []string{"-enable-all", "-go=go1.18"}},
	)
	for _, d := range []string{"#performance,underef", "#style", "assignOp,#experimental,#opinionated"} {
		cfgs = append(cfgs, c08Cfg{"enable-all,disable=" + d, []string{"-enableAll", "-disable=" + d}, []string{"-enable-all", "-disable=" + d}})
	}
	lists := [][2]string{{"hugeParam,underef,captLocal,ifElseChain", "#performance"}, {"underef,ifElseChain,hugeParam", "#style"}, {"#diagnostic,underef", "#style,#experimental"}, {"#diagnostic", ""}, {"#style", "#experimental"}, {"#performance", ""}, {"#diagnostic,#style,#performance", "#opinionated"},
		{"assignOp,hugeParam,ifElseChain,underef", ""}, {"#style,hugeParam", "assignOp"}, {"commentFormatting,captLocal,dupSubExpr", ""}, {"#experimental", "#performance"}}
	for _, l := range lists {
		cfgs = append(cfgs, c08Cfg{"enable=" + l[0] + ",disable=" + l[1], []string{"-enable=" + l[0], "-disable=" + l[1]}, []string{"-enable=" + l[0], "-disable=" + l[1]}})
	}
	for _, pc := range c14Params {
		for _, v := range []interface{}{pc.v2} {
			flag := fmt.Sprintf("-@%s.%s=%v", pc.checker, pc.param, v)
			cfgs = append(cfgs, c08Cfg{"param " + flag, []string{"-enable=" + pc.checker, "-disable=", flag}, []string{"-enable=" + pc.checker, "-disable=", flag}})
		}
	}
	type result struct {
		lines map[string]int // normalised line -> count
		exit  int
		raw   string
	}
	var mu sync.Mutex
	results := map[string]map[string]*result{} // ws|cfg -> fe -> result
	var wg sync.WaitGroup
	sem := make(chan struct{}, 12)
	wsNames := []string{"single", "intests", "exttests", "three", "files", "samenames", "boundary"}
	for _, wsn := range wsNames {
		for ci, c := range cfgs {
			if tier == "quick" && wsn != "three" && wsn != "exttests" && wsn != "samenames" && wsn != "boundary" && ci >= 9 && ci%3 != 0 {
				continue
			}
			for _, fe := range fes {
				wg.Add(1)
				sem <- struct{}{}
				go func(wsn string, c c08Cfg, fe string) {
					defer wg.Done()
					defer func() { <-sem }()
					dir := filepath.Join(base, wsn)
					var a []string
					if strings.HasSuffix(fe, "-analysis") {
						a = append(append([]string{}, c.analysis...), targets[wsn]...)
					} else {
						a = append(append([]string{"check"}, c.cli...), targets[wsn]...)
					}
					res := harness.RunCmd(dir, harness.GoEnv(), 3*time.Minute, bins[fe], a...)
					r := &result{lines: map[string]int{}, exit: res.Exit, raw: res.Stdout + res.Stderr}
					for _, l := range strings.Split(r.raw, "\n") {
						m := c16LineRE.FindStringSubmatch(l)
						if m == nil {
							continue
						}
						p := m[1]
						if i := strings.Index(p, "/c08/"+wsn+"/"); i >= 0 {
							p = p[i+len("/c08/"+wsn+"/"):]
						}
						p = strings.TrimPrefix(p, "./")
						r.lines[fmt.Sprintf("%s:%s:%s: %s: %s", p, m[2], m[3], m[4], m[5])]++
					}
					mu.Lock()
					k := wsn + "|" + c.id
					if results[k] == nil {
						results[k] = map[string]*result{}
					}
					results[k][fe] = r
					mu.Unlock()
					ev.Eval(1)
				}(wsn, c, fe)
			}
		}
	}
	wg.Wait()
	var keys []string
	for k := range results {
		keys = append(keys, k)
	}
	sort.Strings(keys)
	nonEmpty := 0
	for _, k := range keys {
		rs := results[k]
		ref := rs["go-critic"]
		if len(ref.lines) > 0 {
			nonEmpty++
			ev.Nontrivial(k)
		}
		for _, fe := range fes {
			r := rs[fe]
			if strings.Contains(r.raw, "panic:") {
				ev.Violate(evidence.Violation{Key: fe + "|panic", What: "front-end panics", Observed: k + "\n" + string(tail([]byte(r.raw), 800)), Replay: map[string]interface{}{"config": k, "frontend": fe}})
				continue
			}
			// each exactly once
			for l, n := range r.lines {
				if n != 1 {
					ev.Violate(evidence.Violation{Key: fe + "|reported-more-than-once|" + lineChecker(l), What: "a diagnostic is printed more than once in one run", Observed: fmt.Sprintf("%s: %s x%d", k, l, n), Replay: map[string]interface{}{"config": k, "frontend": fe}})
					break
				}
			}
			if fe == "go-critic" {
				continue
			}
			var missing, extra []string
			for l := range ref.lines {
				if r.lines[l] == 0 {
					missing = append(missing, l)
				}
			}
			for l := range r.lines {
				if ref.lines[l] == 0 {
					extra = append(extra, l)
				}
			}
			sort.Strings(missing)
			sort.Strings(extra)
			report := func(kind string, ls []string) {
				byKey := map[string][]string{}
				for _, l := range ls {
					ch := lineChecker(l)
					key := fmt.Sprintf("%s|%s|%s", fe, kind, ch)
					if strings.HasSuffix(fe, "-analysis") && kind == "missing" && embedded[ch] {
						key = fe + "|rule-based-checkers-not-offered"
					}
					byKey[key] = append(byKey[key], l)
				}
				for key, ll := range byKey {
					ev.Violate(evidence.Violation{Key: key, What: fmt.Sprintf("%s reports a different set of diagnostics than go-critic for an equivalent configuration (%s)", fe, kind),
						Observed: fmt.Sprintf("%s\n%s in %s: %s", k, kind, fe, strings.Join(ll[:min(len(ll), 4)], "\n  ")), Replay: map[string]interface{}{"kind": "cli-diff", "config": k, "frontend": fe}})
				}
			}
			if len(missing) > 0 {
				report("missing", missing)
			}
			if len(extra) > 0 {
				report("extra", extra)
			}
		}
	}
	if nonEmpty < 10 {
		fmt.Fprintln(os.Stderr, "c08: too few configurations produced diagnostics:", nonEmpty)
		return 2
	}
	ev.Set("configurations", len(keys))
	ev.Set("configurations_with_diagnostics", nonEmpty)

	// ---- in-process leg: registry offered by the analyzer, and quick fixes forwarded unchanged
	c08InProcess(ev)

	ev.Sample(map[string]interface{}{"workspace": "three packages with in-package tests", "config": "-enable=#style,hugeParam -disable=assignOp", "binaries": fes, "oracle": "identical sets of (file,line,col,checker,message), each exactly once"})
	ev.Set("rule", "7 workspaces (single package; in-package tests; external tests; three packages; explicit file arguments; packages sharing package names and file base names; packages whose first file has no imports and declares locals named like the previous package's imports) x configurations expressible in both flag dialects (default, enable-all, -go versions, 8 enable/disable list pairs, every checker parameter at a non-default value) x the 4 real binaries; go-critic is the reference. non-trivial = configuration with at least one diagnostic")
	return ev.Finish()
}

func lineChecker(l string) string {
	parts := strings.SplitN(l, ": ", 3)
	if len(parts) >= 2 {
		return parts[1]
	}
	return "?"
}

func c08InProcess(ev *evidence.Run) {
	bin, err := harness.BuildHarnessBin("./cmd/anrpc")
	if err != nil {
		fmt.Fprintln(os.Stderr, err)
		os.Exit(2)
	}
	rpc, err := harness.StartRPC(bin, harness.WorkDir(), nil)
	if err != nil {
		fmt.Fprintln(os.Stderr, err)
		os.Exit(2)
	}
	defer rpc.Close()
	var reg struct {
		Registry map[string][]string `json:"registry"`
	}
	if err := rpc.Call(map[string]interface{}{"op": "registered"}, &reg); err != nil {
		fmt.Fprintln(os.Stderr, err)
		os.Exit(2)
	}
	var missingRule, missingOther []string
	for _, in := range harness.Infos(nil) {
		ev.Eval(1)
		if _, ok := reg.Registry[in.Name]; !ok {
			if in.EmbeddedRuleguard {
				missingRule = append(missingRule, in.Name)
			} else {
				missingOther = append(missingOther, in.Name)
			}
		}
	}
	if len(missingRule) > 0 {
		ev.Violate(evidence.Violation{Key: "analyzer|rule-based-checkers-not-offered", What: "the analyzer does not offer the rule-based checkers the CLI offers (its registry snapshot is taken at package init, before InitEmbeddedRules)", Observed: fmt.Sprintf("%d checkers missing: %s", len(missingRule), strings.Join(missingRule, " ")), Replay: map[string]interface{}{"missing": missingRule}})
	}
	for _, n := range missingOther {
		ev.Violate(evidence.Violation{Key: "analyzer|checker-not-offered|" + n, What: "the analyzer does not offer a checker the CLI offers", Observed: n, Replay: map[string]interface{}{"checker": n}})
	}
	// quick fixes: commentFormatting carries one; the analyzer must forward From/To/Replacement as one TextEdit
	src := "package p\n\n//no space\nfunc F() {}\n\n//another one\nvar X = 1\n"
	var r anResp
	if err := rpc.Call(map[string]interface{}{"op": "run", "args": []string{"-enable=commentFormatting", "-disable="}, "cache": false, "src": src, "fixes": true}, &r); err != nil {
		fmt.Fprintln(os.Stderr, err)
		os.Exit(2)
	}
	pk := harness.LoadOne(src)
	set, err := harness.NewSet(harness.Infos([]string{"commentFormatting"}), "")
	if err != nil {
		fmt.Fprintln(os.Stderr, err)
		os.Exit(2)
	}
	d, _ := set.VisitAll(pk)
	var want []string
	for _, x := range d {
		l := fmt.Sprintf("p.go:%d:%d: %s: %s", x.Line, x.Col, x.Checker, x.Text)
		if x.HasFix {
			l += fmt.Sprintf(" [fix %d-%d %q] {fixes=1 edits=1}", x.From, x.To, x.Repl)
		}
		want = append(want, l)
	}
	ev.Eval(1)
	if len(want) == 0 || !strings.Contains(want[0], "[fix") {
		fmt.Fprintln(os.Stderr, "c08: commentFormatting produced no fix in-process (vacuous):", want)
		os.Exit(2)
	}
	got := r.Passes[0].Diags
	sort.Strings(got)
	sort.Strings(want)
	if !equalStrings(got, want) {
		ev.Violate(evidence.Violation{Key: "analyzer|quick-fix-not-forwarded-unchanged", What: "the analyzer does not forward a quick fix as exactly one suggested edit with the same range and text", Observed: fmt.Sprintf("analyzer: %v\nlinter:   %v", got, want), Replay: map[string]interface{}{"source": src}})
	}
	ev.Nontrivial("fix-forwarding")
}

package main

import (
	"bytes"
	"fmt"
	"go/ast"
	"go/parser"
	"go/token"
	"go/types"
	"os"
	"path/filepath"
	"reflect"
	"regexp"
	"sort"
	"strconv"
	"strings"
	"time"

	"github.com/go-critic/go-critic/checkers/rulesdata"
	"github.com/go-critic/go-critic/linter"
	"github.com/quasilyte/go-ruleguard/ruleguard"
	"github.com/quasilyte/go-ruleguard/ruleguard/ir"
	"github.com/quasilyte/go-ruleguard/ruleguard/irconv"
	"github.com/quasilyte/go-ruleguard/ruleguard/irprint"

	"verif/mc/internal/evidence"
	"verif/mc/internal/harness"
)

func init() { register("C17", c17) }

// firstDiff returns the path of the first structural difference between two values.
func firstDiff(path string, a, b reflect.Value) string {
	if a.IsValid() != b.IsValid() {
		return path + ": validity differs"
	}
	if !a.IsValid() {
		return ""
	}
	if a.Type() != b.Type() {
		return fmt.Sprintf("%s: type %s vs %s", path, a.Type(), b.Type())
	}
	switch a.Kind() {
	case reflect.Ptr, reflect.Interface:
		if a.IsNil() != b.IsNil() {
			return path + ": nil-ness differs"
		}
		if a.IsNil() {
			return ""
		}
		return firstDiff(path, a.Elem(), b.Elem())
	case reflect.Struct:
		for i := 0; i < a.NumField(); i++ {
			if d := firstDiff(path+"."+a.Type().Field(i).Name, a.Field(i), b.Field(i)); d != "" {
				return d
			}
		}
		return ""
	case reflect.Slice, reflect.Array:
		if a.Len() != b.Len() {
			return fmt.Sprintf("%s: len %d vs %d", path, a.Len(), b.Len())
		}
		for i := 0; i < a.Len(); i++ {
			if d := firstDiff(fmt.Sprintf("%s[%d]", path, i), a.Index(i), b.Index(i)); d != "" {
				return d
			}
		}
		return ""
	default:
		if !reflect.DeepEqual(a.Interface(), b.Interface()) {
			return fmt.Sprintf("%s: %#v vs %#v", path, a.Interface(), b.Interface())
		}
		return ""
	}
}

// compileRules runs the precompile pipeline (parser -> go/types -> irconv) on the current rules.go.
func compileRules() (*ir.File, string, error) {
	filename := filepath.Join(harness.RepoDir, "checkers", "rules", "rules.go")
	data, err := os.ReadFile(filename)
	if err != nil {
		return nil, "", err
	}
	fset := token.NewFileSet()
	// the real pipeline is invoked as "-rules ./rules/rules.go": that spelling is embedded nowhere in IR, but keep it
	f, err := parser.ParseFile(fset, "./rules/rules.go", data, parser.ParseComments)
	if err != nil {
		return nil, "", err
	}
	info := &types.Info{
		Types: map[ast.Expr]types.TypeAndValue{},
		Uses:  map[*ast.Ident]types.Object{},
		Defs:  map[*ast.Ident]types.Object{},
	}
	conf := types.Config{Importer: harness.U}
	pkg, err := conf.Check("gorules", fset, []*ast.File{f}, info)
	if err != nil {
		return nil, "", err
	}
	irfile, err := irconv.ConvertFile(&irconv.Context{Pkg: pkg, Types: info, Fset: fset, Src: data}, f)
	if err != nil {
		return nil, "", err
	}
	var buf bytes.Buffer
	irprint.File(&buf, irfile)
	return irfile, buf.String(), nil
}

type docPragma struct{ summary, tags, before, after, note string }

// parseDocPragmas is an independent reading of the //doc: pragmas of rules.go.
func parseDocPragmas() (map[string]docPragma, []string, error) {
	filename := filepath.Join(harness.RepoDir, "checkers", "rules", "rules.go")
	fset := token.NewFileSet()
	f, err := parser.ParseFile(fset, filename, nil, parser.ParseComments)
	if err != nil {
		return nil, nil, err
	}
	out := map[string]docPragma{}
	var order []string
	for _, d := range f.Decls {
		fd, ok := d.(*ast.FuncDecl)
		if !ok || fd.Recv != nil || fd.Type.Params == nil || len(fd.Type.Params.List) != 1 {
			continue
		}
		sel, ok := fd.Type.Params.List[0].Type.(*ast.SelectorExpr)
		if !ok || sel.Sel.Name != "Matcher" {
			continue
		}
		var p docPragma
		if fd.Doc != nil {
			for _, c := range fd.Doc.List {
				t := c.Text
				if !strings.HasPrefix(t, "//doc:") {
					continue
				}
				t = strings.TrimPrefix(t, "//doc:")
				key, val := t, ""
				if i := strings.IndexAny(t, " \t"); i >= 0 {
					key, val = t[:i], strings.TrimSpace(t[i:])
				}
				switch key {
				case "summary":
					p.summary = val
				case "tags":
					p.tags = val
				case "before":
					p.before = val
				case "after":
					p.after = val
				case "note":
					p.note = val
				}
			}
		}
		out[fd.Name.Name] = p
		order = append(order, fd.Name.Name)
	}
	return out, order, nil
}

// handWrittenNames extracts `info.Name = "x"` from checkers/*_checker.go (independent listing).
func handWrittenNames() ([]string, error) {
	files, _ := filepath.Glob(filepath.Join(harness.RepoDir, "checkers", "*_checker.go"))
	var names []string
	for _, fn := range files {
		fset := token.NewFileSet()
		f, err := parser.ParseFile(fset, fn, nil, 0)
		if err != nil {
			return nil, err
		}
		ast.Inspect(f, func(n ast.Node) bool {
			as, ok := n.(*ast.AssignStmt)
			if !ok || len(as.Lhs) != 1 || len(as.Rhs) != 1 {
				return true
			}
			sel, ok := as.Lhs[0].(*ast.SelectorExpr)
			if !ok || sel.Sel.Name != "Name" {
				return true
			}
			if id, ok := sel.X.(*ast.Ident); !ok || id.Name != "info" {
				return true
			}
			if lit, ok := as.Rhs[0].(*ast.BasicLit); ok && lit.Kind == token.STRING {
				s, _ := strconv.Unquote(lit.Value)
				names = append(names, s)
			}
			return true
		})
	}
	sort.Strings(names)
	return names, nil
}

func defaultEnabledSpec(tags []string) bool {
	for _, t := range tags {
		switch t {
		case "experimental", "opinionated", "performance", "security":
			return false
		}
	}
	return true
}

func c17(args []string) int {
	ev := evidence.New("C17", "exploration")
	ev.Assume("go/parser, go/types, irconv and irprint from the pinned go-ruleguard module are the compile pipeline (the same calls as checkers/rules/precompile.go)")
	viol := func(key, what, obs string, replay interface{}) {
		ev.Violate(evidence.Violation{Key: key, What: what, Observed: obs, Replay: replay})
	}

	// ---- leg 1: IR recompiled from source == shipped IR
	irfile, irtext, err := compileRules()
	if err != nil {
		viol("rules|compile", "rules.go does not compile through the precompile pipeline", err.Error(), nil)
		return ev.Finish()
	}
	shipped := rulesdata.PrecompiledRules
	ruleCount := 0
	for gi := range irfile.RuleGroups {
		g := &irfile.RuleGroups[gi]
		ruleCount += len(g.Rules)
		ev.Eval(1 + len(g.Rules))
		ev.Nontrivial("group:" + g.Name)
		var sg *ir.RuleGroup
		for j := range shipped.RuleGroups {
			if shipped.RuleGroups[j].Name == g.Name {
				sg = &shipped.RuleGroups[j]
			}
		}
		if sg == nil {
			viol("rules|group-missing|"+g.Name, "rule group of rules.go is absent from the shipped precompiled data", g.Name, nil)
			continue
		}
		if d := firstDiff("group("+g.Name+")", reflect.ValueOf(*g), reflect.ValueOf(*sg)); d != "" {
			viol("rules|group-differs|"+g.Name, "shipped precompiled rule group differs from what compiling rules.go gives", d, map[string]string{"group": g.Name})
		}
	}
	for j := range shipped.RuleGroups {
		found := false
		for gi := range irfile.RuleGroups {
			if irfile.RuleGroups[gi].Name == shipped.RuleGroups[j].Name {
				found = true
			}
		}
		if !found {
			viol("rules|group-extra|"+shipped.RuleGroups[j].Name, "shipped precompiled data has a group that rules.go does not define", shipped.RuleGroups[j].Name, nil)
		}
	}
	if d := firstDiff("file", reflect.ValueOf(*irfile), reflect.ValueOf(*shipped)); d != "" {
		viol("rules|ir-differs", "shipped precompiled IR differs structurally from compiled rules.go", d, nil)
	}
	ev.Set("rule_groups", len(irfile.RuleGroups))
	ev.Set("rules", ruleCount)
	// text on disk
	disk, err := os.ReadFile(filepath.Join(harness.RepoDir, "checkers", "rulesdata", "rulesdata.go"))
	if err != nil {
		viol("rules|rulesdata-unreadable", "rulesdata.go unreadable", err.Error(), nil)
	} else {
		want := "// Code generated by \"precompile.go\". DO NOT EDIT.\n\npackage rulesdata\n\nimport \"github.com/quasilyte/go-ruleguard/ruleguard/ir\"\n\nvar PrecompiledRules = &" + irtext + "\n"
		ev.Eval(1)
		if string(disk) != want {
			viol("rules|rulesdata-text", "rulesdata.go on disk is not what precompile.go generates from rules.go today", firstTextDiff(string(disk), want), nil)
		}
	}
	// real pipeline (go run precompile.go) conformance leg
	{
		out := filepath.Join(harness.WorkDir(), "rulesdata_regen.go")
		res := harness.RunCmd(filepath.Join(harness.RepoDir, "checkers"), harness.GoEnv(), 5*time.Minute,
			"go", "run", "./rules/precompile.go", "-rules", "./rules/rules.go", "-o", out)
		regen, rerr := os.ReadFile(out)
		ev.Eval(1)
		if res.Exit != 0 || rerr != nil {
			viol("rules|precompile-run", "running the real precompile.go failed", res.Stderr+fmt.Sprint(rerr), nil)
		} else if !bytes.Equal(regen, disk) {
			viol("rules|rulesdata-regen", "go run precompile.go output differs from checkers/rulesdata/rulesdata.go", firstTextDiff(string(disk), string(regen)), nil)
		}
		ev.Set("real_precompile_run", true)
	}

	// ---- leg 2: each group <-> exactly one registered checker
	pragmas, order, err := parseDocPragmas()
	if err != nil {
		viol("rules|pragmas", "cannot parse rules.go", err.Error(), nil)
		return ev.Finish()
	}
	harness.Init()
	infos := linter.GetCheckersInfo()
	byName := map[string][]*linter.CheckerInfo{}
	for _, in := range infos {
		byName[in.Name] = append(byName[in.Name], in)
	}
	// groups as the engine sees the freshly compiled IR
	eng := ruleguard.NewEngine()
	if err := eng.LoadFromIR(&ruleguard.LoadContext{Fset: token.NewFileSet()}, "rules/rules.go", irfile); err != nil {
		viol("rules|load-ir", "freshly compiled IR does not load", err.Error(), nil)
		return ev.Finish()
	}
	groups := eng.LoadedGroups()
	if len(groups) != len(order) {
		viol("rules|group-count", "number of loaded groups differs from matcher functions in rules.go", fmt.Sprintf("%d vs %d", len(groups), len(order)), nil)
	}
	groupNames := map[string]bool{}
	for _, g := range groups {
		groupNames[g.Name] = true
		ev.Eval(1)
		ins := byName[g.Name]
		if len(ins) != 1 {
			viol("registry|group-checker|"+g.Name, "rule group does not map to exactly one registered checker", fmt.Sprintf("%d checkers named %s", len(ins), g.Name), nil)
			continue
		}
		in := ins[0]
		p := pragmas[g.Name]
		var diffs []string
		cmp := func(field, got, want string) {
			if got != strings.TrimSpace(want) {
				diffs = append(diffs, fmt.Sprintf("%s: checker %q vs rules.go %q", field, got, want))
			}
		}
		cmp("summary", in.Summary, p.summary)
		cmp("before", in.Before, p.before)
		cmp("after", in.After, p.after)
		cmp("note", in.Note, p.note)
		cmp("tags", strings.Join(in.Tags, " "), strings.Join(strings.Fields(p.tags), " "))
		if !in.EmbeddedRuleguard {
			diffs = append(diffs, "EmbeddedRuleguard=false")
		}
		if len(in.Params) != 0 {
			diffs = append(diffs, "embedded checker has params")
		}
		if len(diffs) > 0 {
			viol("registry|group-meta|"+g.Name, "registered checker metadata differs from the rule group's doc pragmas", strings.Join(diffs, "; "), nil)
		}
	}
	hand, err := handWrittenNames()
	if err != nil {
		viol("registry|scan", "cannot scan checkers", err.Error(), nil)
	}
	handSet := map[string]bool{}
	for _, h := range hand {
		handSet[h] = true
	}
	for _, in := range infos {
		ev.Eval(1)
		ev.Nontrivial("checker:" + in.Name)
		switch {
		case in.EmbeddedRuleguard && !groupNames[in.Name]:
			viol("registry|embedded-without-group|"+in.Name, "embedded checker without a rule group", in.Name, nil)
		case !in.EmbeddedRuleguard && groupNames[in.Name]:
			viol("registry|name-clash|"+in.Name, "hand-written checker shares its name with a rule group", in.Name, nil)
		case !in.EmbeddedRuleguard && !handSet[in.Name]:
			viol("registry|unknown-origin|"+in.Name, "registered checker is neither a rule group nor a hand-written checker file", in.Name, nil)
		}
	}
	for _, h := range hand {
		if len(byName[h]) != 1 {
			viol("registry|hand-unregistered|"+h, "hand-written checker is not registered exactly once", h, nil)
		}
	}
	ev.Set("registered_checkers", len(infos))
	ev.Set("hand_written", len(hand))
	// the same listing in a process that links the analysis front-end before the rule groups are registered
	if abin, err := harness.BuildHarnessBin("./cmd/anrpc"); err != nil {
		ev.Cap("listing in an analyzer-linked process skipped: " + firstLine(err.Error()))
	} else if rpc, err := harness.StartRPC(abin, harness.WorkDir(), nil); err != nil {
		fmt.Fprintln(os.Stderr, err)
		os.Exit(2)
	} else {
		var resp struct {
			Registered []string `json:"registered"`
			ParseErr   string   `json:"parse_err"`
		}
		if err := rpc.Call(map[string]interface{}{"op": "listed"}, &resp); err != nil || resp.ParseErr != "" {
			fmt.Fprintln(os.Stderr, "c17: listed rpc:", err, resp.ParseErr)
			os.Exit(2)
		}
		rpc.Close()
		listed := map[string]bool{}
		for _, n := range resp.Registered {
			listed[n] = true
		}
		for _, in := range infos {
			if strings.HasPrefix(in.Name, "vprobe") || strings.HasPrefix(in.Name, "vsched") {
				continue
			}
			ev.Eval(1)
			if !listed[in.Name] {
				viol("registry|not-listed-when-analyzer-linked|"+map[bool]string{true: "rule-group", false: "hand-written"}[in.EmbeddedRuleguard], "a registered checker is missing from GetCheckersInfo() in a process that links the analysis front-end and then registers the rule groups", in.Name, nil)
			}
		}
	}

	// ---- leg 3: documentation
	c17docs(ev, infos, viol)

	ev.Sample(map[string]interface{}{"group": groups[0].Name, "summary": groups[0].DocSummary, "tags": groups[0].DocTags, "rules_in_group": len(irfile.RuleGroups[0].Rules)})
	ev.Sample(map[string]interface{}{"doc_entry": infos[0].Name, "default_enabled": defaultEnabledSpec(infos[0].Tags)})
	ev.Set("rule", "every rule group and rule of rules.go (structural comparison with the shipped IR, field by field), every registered checker, every row/section of docs/overview.md, every line of `go-critic doc` and every `doc <name>` page; non-trivial = distinct group or checker compared")
	return ev.Finish()
}

func firstTextDiff(a, b string) string {
	al, bl := strings.Split(a, "\n"), strings.Split(b, "\n")
	for i := 0; i < len(al) && i < len(bl); i++ {
		if al[i] != bl[i] {
			return fmt.Sprintf("line %d: %q vs %q", i+1, al[i], bl[i])
		}
	}
	return fmt.Sprintf("length %d vs %d lines", len(al), len(bl))
}

var rowRE = regexp.MustCompile(`^\|:(heavy|white)_check_mark:\[(\w+)\]\(#(\w+)\)\|(.*)\|$`)

func c17docs(ev *evidence.Run, infos []*linter.CheckerInfo, viol func(key, what, obs string, replay interface{})) {
	// (a) regenerate overview.md with the real makedocs binary in a scratch tree
	bin, err := harness.BuildBin("./cmd/makedocs")
	if err != nil {
		fmt.Fprintln(os.Stderr, err)
		os.Exit(2)
	}
	scratch := filepath.Join(harness.WorkDir(), "docs-scratch")
	os.MkdirAll(filepath.Join(scratch, "docs", "templates"), 0o755)
	os.MkdirAll(filepath.Join(scratch, "cmd", "makedocs"), 0o755)
	tmpls, _ := filepath.Glob(filepath.Join(harness.RepoDir, "docs", "templates", "*"))
	for _, t := range tmpls {
		b, _ := os.ReadFile(t)
		os.WriteFile(filepath.Join(scratch, "docs", "templates", filepath.Base(t)), b, 0o644)
	}
	res := harness.RunCmd(filepath.Join(scratch, "cmd", "makedocs"), nil, 2*time.Minute, bin)
	regen, rerr := os.ReadFile(filepath.Join(scratch, "docs", "overview.md"))
	disk, _ := os.ReadFile(filepath.Join(harness.RepoDir, "docs", "overview.md"))
	ev.Eval(1)
	if res.Exit != 0 || rerr != nil {
		viol("docs|makedocs-run", "makedocs failed", res.Stderr+fmt.Sprint(rerr), nil)
	} else if !bytes.Equal(regen, disk) {
		viol("docs|overview-stale", "docs/overview.md differs from what makedocs generates today", firstTextDiff(string(disk), string(regen)), nil)
	}
	// (b) independent reading of docs/overview.md: table rows and sections
	rows := map[string][]bool{} // name -> marks
	sections := map[string]int{}
	total := -1
	for _, line := range strings.Split(string(disk), "\n") {
		if m := rowRE.FindStringSubmatch(line); m != nil {
			rows[m[2]] = append(rows[m[2]], m[1] == "heavy")
			if strings.ToLower(m[2]) != m[3] {
				viol("docs|anchor|"+m[2], "overview row anchor is not the lower-cased name", line, nil)
			}
		}
		if strings.HasPrefix(line, "## ") && !strings.HasPrefix(line, "## Check") {
			sections[strings.TrimSpace(line[3:])]++
		}
		if strings.HasPrefix(line, "Total number of checks is ") {
			fmt.Sscanf(line, "Total number of checks is %d", &total)
		}
	}
	if total != len(infos) {
		viol("docs|total", "overview page total differs from the number of registered checkers", fmt.Sprintf("%d vs %d", total, len(infos)), nil)
	}
	reg := map[string]*linter.CheckerInfo{}
	for _, in := range infos {
		reg[in.Name] = in
		ev.Eval(1)
		cats := 0
		for _, t := range []string{"diagnostic", "style", "performance"} {
			if in.HasTag(t) {
				cats++
			}
		}
		marks := rows[in.Name]
		if len(marks) != cats {
			viol("docs|row-count|"+in.Name, "checker is not listed once per category table in overview.md", fmt.Sprintf("%d rows, %d category tags", len(marks), cats), nil)
		}
		for _, mk := range marks {
			if mk != defaultEnabledSpec(in.Tags) {
				viol("docs|default-mark|"+in.Name, "default-enabled mark in overview.md disagrees with the selection rule", fmt.Sprintf("mark=%v spec=%v tags=%v", mk, defaultEnabledSpec(in.Tags), in.Tags), nil)
			}
		}
		if sections[in.Name] != 1 {
			viol("docs|section|"+in.Name, "checker does not have exactly one section in overview.md", fmt.Sprint(sections[in.Name]), nil)
		}
	}
	for name := range rows {
		if reg[name] == nil {
			viol("docs|row-unregistered|"+name, "overview.md lists a checker that is not registered", name, nil)
		}
	}
	for name := range sections {
		if reg[name] == nil {
			viol("docs|section-unregistered|"+name, "overview.md documents a checker that is not registered", name, nil)
		}
	}
	// (b2) the marks also agree with what the real command-line mains select when no flag is given
	for _, pkg := range []string{"./cmd/go-critic", "./cmd/gocritic"} {
		bin, err := harness.BuildInstr(pkg)
		if err != nil {
			// the instrumented main does not build against this tree (its unexported steps were refactored):
			// this comparison is skipped, the marks are still compared with the rule of the property text
			ev.Cap("default-selection cross-check skipped for " + pkg + ": instrumented binary does not build")
			continue
		}
		rpc, err := harness.StartRPC(bin, harness.WorkDir(), []string{"VERIF_RPC=1"})
		if err != nil {
			fmt.Fprintln(os.Stderr, err)
			os.Exit(2)
		}
		var resp struct {
			Selected []string `json:"selected"`
			Err      string   `json:"err"`
			Panic    string   `json:"panic"`
		}
		if err := rpc.Call(map[string]interface{}{"op": "init", "args": []string{}}, &resp); err != nil || resp.Err != "" || resp.Panic != "" {
			fmt.Fprintln(os.Stderr, "c17: default selection rpc:", err, resp.Err, resp.Panic)
			os.Exit(2)
		}
		rpc.Close()
		sel := map[string]bool{}
		for _, n := range resp.Selected {
			sel[n] = true
		}
		if len(sel) == 0 {
			fmt.Fprintln(os.Stderr, "c17: the instrumented CLI selected nothing by default (broken check)")
			os.Exit(2)
		}
		for _, in := range infos {
			if strings.HasPrefix(in.Name, "vprobe") || strings.HasPrefix(in.Name, "vsched") {
				continue
			}
			ev.Eval(1)
			for _, mk := range rows[in.Name] {
				if mk != sel[in.Name] {
					viol("docs|default-mark-vs-cli|"+in.Name, "default-enabled mark in overview.md disagrees with what "+filepath.Base(pkg)+" really selects when no flag is given", fmt.Sprintf("mark=%v selected=%v tags=%v", mk, sel[in.Name], in.Tags), nil)
				}
			}
		}
	}
	// (c) `go-critic doc` and `doc <name>` on both CLI binaries
	for _, pkg := range []string{"./cmd/go-critic", "./cmd/gocritic"} {
		bin, err := harness.BuildBin(pkg)
		if err != nil {
			fmt.Fprintln(os.Stderr, err)
			os.Exit(2)
		}
		res := harness.RunCmd(harness.WorkDir(), nil, time.Minute, bin, "doc")
		ev.Eval(1)
		var want []string
		for _, in := range infos {
			want = append(want, fmt.Sprintf("%s %v", in.Name, in.Tags))
		}
		got := strings.Split(strings.TrimRight(res.Stdout, "\n"), "\n")
		if res.Exit != 0 || strings.Join(got, "\n") != strings.Join(want, "\n") {
			viol("docs|doc-list|"+pkg, "`doc` sub-command does not list exactly the registered checkers", firstTextDiff(strings.Join(got, "\n"), strings.Join(want, "\n"))+res.Stderr, nil)
		}
		names := infos
		if evidence.Tier() == "quick" && pkg == "./cmd/gocritic" {
			names = infos[:5]
		}
		for _, in := range names {
			r := harness.RunCmd(harness.WorkDir(), nil, time.Minute, bin, "doc", in.Name)
			ev.Eval(1)
			ok := r.Exit == 0 && strings.HasPrefix(r.Stdout, in.Name+" checker documentation\n") &&
				strings.Contains(r.Stdout, "\nTags: "+fmt.Sprint(in.Tags)+"\n") &&
				strings.Contains(r.Stdout, "\n"+in.Summary+".\n") &&
				strings.Contains(r.Stdout, "Non-compliant code:\n"+in.Before+"\n") &&
				strings.Contains(r.Stdout, "Compliant code:\n"+in.After)
			for p := range in.Params {
				if !strings.Contains(r.Stdout, "-@"+in.Name+"."+p+" ") {
					ok = false
				}
			}
			if !ok {
				viol("docs|doc-page|"+in.Name, "`doc <name>` page does not carry the registered name/tags/summary/before/after/params", r.Stdout+r.Stderr, nil)
			}
		}
	}
}

func firstLine(s string) string {
	if i := strings.Index(s, "\n"); i >= 0 {
		return s[:i]
	}
	return s
}

package main

import (
	"fmt"
	"go/scanner"
	"go/token"
	"strings"
	"sync"

	"verif/mc/internal/evidence"
	"verif/mc/internal/harness"
)

// tokenStarts computes the byte offsets at which a token or a comment of src starts
// (automatically inserted semicolons excluded), using go/scanner as the reference.
func tokenStarts(src string) map[int]bool {
	fset := token.NewFileSet()
	f := fset.AddFile("x.go", -1, len(src))
	var s scanner.Scanner
	s.Init(f, []byte(src), func(token.Position, string) {}, scanner.ScanComments)
	out := map[int]bool{}
	for {
		pos, tok, lit := s.Scan()
		if tok == token.EOF {
			break
		}
		if tok == token.SEMICOLON && lit == "\n" {
			continue
		}
		out[f.Offset(pos)] = true
	}
	return out
}

var artefacts = []string{"%!", "<nil>", "BadExpr", "BadStmt", "BadDecl", "PANIC=", "(MISSING)", "(EXTRA ", "%!(NOVERB)"}

func c07Oracle(ev *evidence.Run, r *caseResult, d harness.Diag, cache *sync.Map) {
	viol := func(class, obs string) {
		ev.Violate(evidence.Violation{Key: d.Checker + "|" + class, What: fmt.Sprintf("diagnostic of %s: %s", d.Checker, class), Observed: obs + "\n" + d.String(), Replay: progReplay(r.prog, d.Checker)})
	}
	if !d.PosValid {
		viol("no-position", "Pos is NoPos")
		return
	}
	if !d.InFile {
		viol("position-in-other-file", fmt.Sprintf("position file %s, analysed file %s", d.Filename, d.VisitedFile))
		return
	}
	var src string
	for _, f := range r.prog.Files {
		if f.Name == d.File {
			src = f.Src
		}
	}
	key := r.prog.ID + "|" + d.File
	var starts map[int]bool
	if v, ok := cache.Load(key); ok {
		starts = v.(map[int]bool)
	} else {
		starts = tokenStarts(src)
		if len(r.prog.Files) > 1 || r.prog.Fam == "testdata" {
			cache.Store(key, starts)
		}
	}
	if !starts[d.Offset] {
		ctx := ""
		if d.Offset >= 0 && d.Offset <= len(src) {
			lo, hi := d.Offset-15, d.Offset+15
			if lo < 0 {
				lo = 0
			}
			if hi > len(src) {
				hi = len(src)
			}
			ctx = fmt.Sprintf("%q|HERE|%q", src[lo:d.Offset], src[d.Offset:hi])
		}
		viol("position-not-token-start", fmt.Sprintf("offset %d is not the start of a token or comment: %s", d.Offset, ctx))
	}
	if d.HasFix && !d.FixInFile {
		viol("fix-range-invalid", fmt.Sprintf("fix range [%d,%d) invalid, inverted or outside the analysed file", d.From, d.To))
	}
	if strings.TrimSpace(d.Text) == "" {
		viol("empty-message", "empty text")
	}
	for _, a := range artefacts {
		if strings.Contains(d.Text, a) && !strings.Contains(src, a) {
			viol("message-artefact:"+a, "message contains a formatting-failure artefact that is not part of the analysed source")
			break
		}
	}
	if d.HasFix {
		for _, a := range artefacts {
			if strings.Contains(d.Repl, a) && !strings.Contains(src, a) {
				viol("fix-artefact:"+a, "fix text contains a formatting-failure artefact")
				break
			}
		}
	}
}

package main

import (
	"fmt"
	"regexp"
	"sort"
	"strconv"
	"strings"
	"sync"

	"verif/mc/internal/evidence"
	"verif/mc/internal/harness"
)

func init() { register("C11", c11) }

var c11Atoms = []string{"a", "b", "-", "]", "{", "1", ".", `\.`, `\-`, `\d`, `\^`, `\$`, "[a]", "[-]", "[{]", "[^a]", "[ab]", "[a-c]", "[a-a]", "[+--]", "[+--x]", "[0-9]", "[[:digit:]]", `[^\d]`, `[\^a]`, `[a\^]`, `[\$a]`, `[\d\D]`,
	"(a)", "(.)", "(ab)", "(?:a)", "(?:ab)", "(?P<n>a)", "(?i:a)", "(?i)", "^", "$", "(a|b)", "(?:a|b)", "aa", "ab"}

var c11Quants = []string{"", "*", "+", "?", "{0}", "{1}", "{0,1}", "{1,}", "{0,}", "{2}", "{1,2}", "*?", "{3}"}

var c11AltItems = []string{"a", "b", "c", "-", "]", "^", `\^`, ".", "ab", "ac", "abc", "xab", "foo", "fo", "http", "https", "path", "xpath", "[ab]", `\d`, "a*", "(a)"}

// c11Patterns enumerates pattern syntax trees (rendered); duplicates removed, order deterministic.
func c11Patterns(tier string) []string {
	seen := map[string]bool{}
	var out []string
	add := func(p string) {
		if len(p) == 0 || len(p) > 60 || seen[p] {
			return
		}
		seen[p] = true
		out = append(out, p)
	}
	var qa []string
	for _, a := range c11Atoms {
		for _, q := range c11Quants {
			qa = append(qa, a+q)
		}
	}
	for _, x := range qa {
		add(x)
	}
	for _, x := range qa {
		for _, y := range qa {
			add(x + y)
		}
	}
	// three quantified atoms over a reduced alphabet
	var red []string
	for _, a := range []string{"a", "b", "(a)", "[ab]", ".", `\d`, "[a]"} {
		for _, q := range []string{"", "*", "+", "?", "{2}", "{1}"} {
			red = append(red, a+q)
		}
	}
	for _, x := range red {
		for _, y := range red {
			for _, z := range red {
				add(x + y + z)
			}
		}
	}
	// alternations of 2-3 items, bare and wrapped
	wrap := func(alt string) {
		add(alt)
		add("(?:" + alt + ")")
		add("(" + alt + ")")
		add("x(?:" + alt + ")y")
		add("(?:" + alt + ")+")
		add("^(?:" + alt + ")$")
	}
	for _, a := range c11AltItems {
		for _, b := range c11AltItems {
			wrap(a + "|" + b)
			if tier == "thorough" || len(a) == 1 || len(b) == 1 {
				for _, c := range c11AltItems {
					if tier == "thorough" || len(c) <= 2 {
						wrap(a + "|" + b + "|" + c)
					}
				}
			}
		}
	}
	// one level of group wrapping x quantifier over concatenations of <=2 atoms
	var cat []string
	cat = append(cat, c11Atoms...)
	for _, a := range c11Atoms {
		for _, b := range c11Atoms {
			cat = append(cat, a+b)
		}
	}
	for _, x := range cat {
		for _, q := range c11Quants {
			add("(" + x + ")" + q)
			add("(?:" + x + ")" + q)
		}
		// adjacent identical groups
		add("(" + x + ")(" + x + ")")
		add("(" + x + ")(" + x + ")*")
		add("(?:" + x + ")(?:" + x + ")")
		add("x(" + x + ")(" + x + ")(" + x + ")y")
	}
	return out
}

var c11MsgRE = regexp.MustCompile("^can re-write `(.*)` as `(.*)`$")

const metaChars = `|()[]{}*+?^$\.-:`

func metaDiff(a, b string) string {
	cnt := map[rune]int{}
	for _, r := range a {
		if strings.ContainsRune(metaChars, r) {
			cnt[r]--
		}
	}
	for _, r := range b {
		if strings.ContainsRune(metaChars, r) {
			cnt[r]++
		}
	}
	var minus, plus []string
	for _, r := range metaChars {
		n := cnt[r]
		for ; n < 0; n++ {
			minus = append(minus, string(r))
		}
		for ; n > 0; n-- {
			plus = append(plus, string(r))
		}
	}
	return "-" + strings.Join(minus, "") + "+" + strings.Join(plus, "")
}

func c11Subjects(a string, maxLen int) []string {
	var alpha []rune
	seen := map[rune]bool{}
	for _, r := range a {
		if strings.ContainsRune(`|()[]*+?^$\.:<>,`, r) || seen[r] || r == 'P' || r == 'n' && strings.Contains(a, "?P<n>") {
			continue
		}
		if len(alpha) < 5 {
			seen[r] = true
			alpha = append(alpha, r)
		}
	}
	for _, r := range []rune{'z', '\n'} {
		if !seen[r] {
			alpha = append(alpha, r)
		}
	}
	if strings.Contains(a, "(?i") || strings.Contains(a, "?i)") {
		alpha = append(alpha, 'A')
	}
	out := []string{""}
	// the literal words of the pattern and their pairwise concatenations (alternatives like http|https
	// need subjects longer than the exhaustive length bound)
	words := regexp.MustCompile(`[a-z]{2,}`).FindAllString(a, -1)
	seenW := map[string]bool{}
	for _, w := range words {
		if !seenW[w] {
			seenW[w] = true
			out = append(out, w, w+"z", "z"+w)
		}
	}
	for w1 := range seenW {
		for w2 := range seenW {
			out = append(out, w1+w2)
		}
	}
	sort.Strings(out[1:])
	prev := []string{""}
	for l := 1; l <= maxLen; l++ {
		var cur []string
		for _, p := range prev {
			for _, r := range alpha {
				cur = append(cur, p+string(r))
			}
		}
		out = append(out, cur...)
		prev = cur
	}
	return out
}

var c11What = map[string]string{
	"rewrite-does-not-compile": "the proposed pattern is rejected by Go's regexp",
	"capture-groups-differ":    "the proposed pattern has different numbered/named capture groups",
	"match-differs":            "the proposed pattern does not match the same strings at the same positions",
}

// c11Judge compares pattern a with its proposed rewrite b; kind "" = equivalent on everything explored.
func c11Judge(a, b string, maxLen int) (kind, obs string) {
	ra, err := regexp.Compile(a)
	if err != nil {
		return "", ""
	}
	rb, err := regexp.Compile(b)
	if err != nil {
		return "rewrite-does-not-compile", fmt.Sprintf("%q => %q: %v", a, b, err)
	}
	if ra.NumSubexp() != rb.NumSubexp() || strings.Join(ra.SubexpNames(), "\x00") != strings.Join(rb.SubexpNames(), "\x00") {
		return "capture-groups-differ", fmt.Sprintf("%q => %q: groups %q vs %q", a, b, ra.SubexpNames(), rb.SubexpNames())
	}
	for _, s := range c11Subjects(a, maxLen) {
		ia, ib := ra.FindStringSubmatchIndex(s), rb.FindStringSubmatchIndex(s)
		if fmt.Sprint(ia) != fmt.Sprint(ib) {
			return "match-differs", fmt.Sprintf("%q => %q: subject %q: %v vs %v", a, b, s, ia, ib)
		}
	}
	return "", ""
}

// c11Rewrite asks the real checker for its rewrite of one pattern ("" = none).
func c11Rewrite(set *harness.Set, pat string) (string, bool) {
	pk := harness.LoadOne("package vpkg\n\nimport \"regexp\"\n\nvar _ = regexp.MustCompile(" + strconv.Quote(pat) + ")\n")
	defer pk.Release()
	if len(pk.Errs) > 0 {
		return "", false
	}
	d, _ := set.VisitAll(pk)
	for _, x := range d {
		if m := c11MsgRE.FindStringSubmatch(x.Text); m != nil && m[1] == pat {
			return m[2], true
		}
	}
	return "", false
}

// c11Tokens splits a pattern into deletable units (escapes, classes, counted quantifiers, single chars).
func c11Tokens(p string) []string {
	var out []string
	for i := 0; i < len(p); {
		switch {
		case p[i] == '\\' && i+1 < len(p):
			out = append(out, p[i:i+2])
			i += 2
		case p[i] == '[':
			j := strings.Index(p[i+1:], "]")
			if j > 0 && strings.HasPrefix(p[i:], "[[:") {
				j = strings.Index(p[i:], ":]]") + 2 - 1
			}
			if j < 0 {
				out = append(out, p[i:i+1])
				i++
				break
			}
			out = append(out, p[i:i+j+2])
			i += j + 2
		case p[i] == '{':
			j := strings.Index(p[i:], "}")
			if j < 0 {
				out = append(out, p[i:i+1])
				i++
				break
			}
			out = append(out, p[i:i+j+1])
			i += j + 1
		case strings.HasPrefix(p[i:], "(?:"), strings.HasPrefix(p[i:], "(?i:"), strings.HasPrefix(p[i:], "(?P<n>"):
			j := strings.IndexAny(p[i:], ":>")
			out = append(out, p[i:i+j+1])
			i += j + 1
		default:
			out = append(out, p[i:i+1])
			i++
		}
	}
	return out
}

// c11Shrink greedily deletes tokens (and matched group pairs) while the real checker still proposes a
// rewrite that fails in the same way.
func c11Shrink(set *harness.Set, a, b, kind string, maxLen int) (string, string) {
	cur, curB := a, b
	for changed := true; changed; {
		changed = false
		toks := c11Tokens(cur)
		var cands []string
		for i := range toks {
			cands = append(cands, strings.Join(toks[:i], "")+strings.Join(toks[i+1:], ""))
		}
		// delete a group opener together with its closing parenthesis
		for i, t := range toks {
			if strings.HasPrefix(t, "(") {
				depth := 0
				for j := i; j < len(toks); j++ {
					if strings.HasPrefix(toks[j], "(") {
						depth++
					} else if toks[j] == ")" {
						depth--
						if depth == 0 {
							cands = append(cands, strings.Join(toks[:i], "")+strings.Join(toks[i+1:j], "")+strings.Join(toks[j+1:], ""))
							break
						}
					}
				}
			}
		}
		for _, c := range cands {
			if c == "" || len(c) >= len(cur) {
				continue
			}
			if _, err := regexp.Compile(c); err != nil {
				continue
			}
			nb, ok := c11Rewrite(set, c)
			if !ok {
				continue
			}
			if k, _ := c11Judge(c, nb, maxLen); k == kind {
				cur, curB = c, nb
				changed = true
				break
			}
		}
	}
	return cur, curB
}

type c11Hunk struct {
	aLo, aHi int // token range in A
	b        []string
}

// c11Hunks computes a token-level LCS diff between two patterns.
func c11Hunks(ta, tb []string) []c11Hunk {
	n, m := len(ta), len(tb)
	lcs := make([][]int, n+1)
	for i := range lcs {
		lcs[i] = make([]int, m+1)
	}
	for i := n - 1; i >= 0; i-- {
		for j := m - 1; j >= 0; j-- {
			if ta[i] == tb[j] {
				lcs[i][j] = lcs[i+1][j+1] + 1
			} else if lcs[i+1][j] >= lcs[i][j+1] {
				lcs[i][j] = lcs[i+1][j]
			} else {
				lcs[i][j] = lcs[i][j+1]
			}
		}
	}
	var hunks []c11Hunk
	i, j := 0, 0
	var cur *c11Hunk
	flush := func() {
		if cur != nil {
			hunks = append(hunks, *cur)
			cur = nil
		}
	}
	for i < n || j < m {
		switch {
		case i < n && j < m && ta[i] == tb[j]:
			flush()
			i++
			j++
		case j < m && (i == n || lcs[i][j+1] >= lcs[i+1][j]):
			if cur == nil {
				cur = &c11Hunk{aLo: i, aHi: i}
			}
			cur.b = append(cur.b, tb[j])
			j++
		default:
			if cur == nil {
				cur = &c11Hunk{aLo: i, aHi: i}
			}
			cur.aHi = i + 1
			i++
		}
	}
	flush()
	return hunks
}

var c11GroupBody = regexp.MustCompile(`\((\?:|\?P<n>)?[^()]*\)`)

// c11RootCause names the single rewrite step that is wrong: the diff hunk between the minimal pattern and
// its rewrite which, applied alone, already breaks equivalence (group bodies abstracted, literals renamed).
func c11RootCause(minA, minB, kind string, maxLen int) string {
	ta, tb := c11Tokens(minA), c11Tokens(minB)
	hunks := c11Hunks(ta, tb)
	render := func(h c11Hunk) string {
		a := strings.Join(ta[h.aLo:h.aHi], "")
		b := strings.Join(h.b, "")
		abstract := func(s string) string {
			// innermost groups first; a non-capturing group that contains a capture is marked ‹Gc›
			for {
				t := c11GroupBody.ReplaceAllStringFunc(s, func(g string) string {
					hasCap := strings.Contains(g, "‹C›") || strings.Contains(g, "‹N›") || strings.Contains(g, "‹Gc›")
					switch {
					case strings.HasPrefix(g, "(?:"):
						if hasCap {
							return "‹Gc›"
						}
						return "‹G›"
					case strings.HasPrefix(g, "(?P<n>"):
						return "‹N›"
					}
					return "‹C›"
				})
				if t == s {
					return s
				}
				s = t
			}
		}
		return c11Normalize(abstract(a)) + "=>" + c11Normalize(abstract(b))
	}
	// known rewrite steps, recognised on the minimal pair (several may be present); anything else falls
	// through to the literal hunk, so an unfamiliar wrong rewrite always gets a key of its own
	var feats []string
	if strings.Contains(minA, "{0}") && !strings.Contains(minB, "{0}") {
		feats = append(feats, "zero-repeat-operand-dropped")
	}
	if regexp.MustCompile(`\[[^\]]*--`).MatchString(minA) && !strings.Contains(minB, "--") {
		feats = append(feats, "char-range-bounded-by-dash-rerendered")
	}
	if strings.Count(minA, "|") > strings.Count(minB, "|") && strings.Count(minB, "[") > strings.Count(minA, "[") {
		feats = append(feats, "alternation-to-char-class")
	}
	if regexp.MustCompile(`\[[{}|*+?.\[^$()]\]`).MatchString(minA) && strings.Count(minB, "[") < strings.Count(minA, "[") {
		feats = append(feats, "single-char-class-unwrapped")
	}
	if kind == "capture-groups-differ" && len(minB) < len(minA) && strings.Count(minA, "(") > strings.Count(minB, "(") && !strings.Contains(minA, "{0}") {
		feats = append(feats, "identical-adjacent-groups-merged-with-captures")
	}
	if len(feats) > 0 {
		return strings.Join(feats, "+")
	}
	var bad []string
	for _, h := range hunks {
		cand := strings.Join(ta[:h.aLo], "") + strings.Join(h.b, "") + strings.Join(ta[h.aHi:], "")
		if k, _ := c11Judge(minA, cand, maxLen); k != "" {
			bad = append(bad, render(h))
		}
	}
	if len(bad) == 0 {
		for _, h := range hunks {
			bad = append(bad, render(h))
		}
		return "interaction:" + strings.Join(bad, ";")
	}
	return strings.Join(bad, ";")
}

// c11Normalize renames literal letters in order of appearance (a, b, c ...) and digits to 1, so that
// patterns differing only in their literals share a key.
func c11Normalize(p string) string {
	toks := c11Tokens(p)
	ren := map[byte]byte{}
	next := byte('a')
	var b strings.Builder
	for _, t := range toks {
		if len(t) == 1 && (t[0] >= 'a' && t[0] <= 'z' || t[0] >= 'A' && t[0] <= 'Z') {
			r, ok := ren[t[0]]
			if !ok {
				r = next
				ren[t[0]] = r
				next++
			}
			b.WriteByte(r)
			continue
		}
		b.WriteString(t)
	}
	return b.String()
}

func c11(args []string) int {
	ev := evidence.New("C11", "exploration")
	tier := evidence.Tier()
	harness.Init()
	ev.Assume("Go's regexp package is the reference semantics (FindStringSubmatchIndex, NumSubexp, SubexpNames)")
	pats := c11Patterns(tier)
	var valid []string
	for _, p := range pats {
		if _, err := regexp.Compile(p); err == nil {
			valid = append(valid, p)
		}
	}
	maxLen := 4
	if tier == "thorough" {
		maxLen = 5
	}
	ev.Set("patterns_generated", len(pats))
	ev.Set("patterns_accepted_by_go_regexp", len(valid))
	const batch = 400
	type job struct{ lo, hi int }
	jobs := make(chan job, 64)
	var wg sync.WaitGroup
	var mu sync.Mutex
	rewrites, subjectsTried := 0, 0
	for w := 0; w < 16; w++ {
		wg.Add(1)
		go func() {
			defer wg.Done()
			set, err := harness.NewSet(harness.Infos([]string{"regexpSimplify"}), "")
			if err != nil {
				panic(err)
			}
			for j := range jobs {
				var b strings.Builder
				b.WriteString("package vpkg\n\nimport \"regexp\"\n\nfunc F() {\n")
				for _, p := range valid[j.lo:j.hi] {
					fmt.Fprintf(&b, "\t_ = regexp.MustCompile(%s)\n", strconv.Quote(p))
				}
				b.WriteString("}\n")
				pk := harness.LoadOne(b.String())
				if len(pk.Errs) > 0 {
					panic(fmt.Sprint(pk.Errs))
				}
				d, crashes := set.VisitAll(pk)
				pk.Release()
				ev.Eval(j.hi - j.lo)
				for _, c := range crashes {
					ev.Violate(evidence.Violation{Key: "crash|" + c.Frame, What: "regexpSimplify panics on a constant pattern (C01's subject, reported here because the batch is lost)", Observed: c.Value, Replay: map[string]interface{}{"patterns": valid[j.lo:j.hi]}})
				}
				for _, x := range d {
					idx := j.lo + (x.Line - 6)
					if idx < j.lo || idx >= j.hi {
						continue
					}
					a := valid[idx]
					m := c11MsgRE.FindStringSubmatch(x.Text)
					if m == nil {
						continue
					}
					bpat := m[2]
					if m[1] != a {
						ev.Violate(evidence.Violation{Key: "message-quotes-other-pattern", What: "the rewrite message does not quote the analysed pattern", Observed: fmt.Sprintf("pattern %q message %q", a, x.Text), Replay: map[string]interface{}{"pattern": a}})
						continue
					}
					ev.Nontrivial(a)
					mu.Lock()
					rewrites++
					mu.Unlock()
					kind, obs := c11Judge(a, bpat, maxLen)
					mu.Lock()
					subjectsTried += len(c11Subjects(a, maxLen))
					mu.Unlock()
					if kind == "" {
						continue
					}
					// root cause: shrink the pattern to a minimal one that still gets a bad rewrite of the same kind
					minA, minB := c11Shrink(set, a, bpat, kind, maxLen)
					ev.Violate(evidence.Violation{Key: kind + "|" + c11RootCause(minA, minB, kind, maxLen), What: c11What[kind],
						Observed: fmt.Sprintf("%s\nminimal pattern with the same failure: %q => %q", obs, minA, minB),
						Replay:   map[string]interface{}{"kind": "pattern", "pattern": a, "rewrite": bpat, "minimal": minA, "minimal_rewrite": minB}})
				}
			}
		}()
	}
	for lo := 0; lo < len(valid); lo += batch {
		hi := lo + batch
		if hi > len(valid) {
			hi = len(valid)
		}
		jobs <- job{lo, hi}
	}
	close(jobs)
	wg.Wait()
	ev.Set("rewrites_proposed", rewrites)
	ev.Set("subject_strings_evaluated", subjectsTried)
	ev.Set("max_subject_length", maxLen)
	ev.Sample(map[string]interface{}{"pattern": "(?:a|b|c)", "rewrite": "[abc]", "subjects": "all strings over {a,b,c,z,\\n} up to length 4", "oracle": "same FindStringSubmatchIndex on every subject, same NumSubexp and SubexpNames"})
	ev.Set("rule", "pattern syntax trees: 42 atoms x 13 quantifiers; all concatenations of two quantified atoms; three over a reduced alphabet; alternations of 2-3 items bare/grouped/anchored/with context; one level of (capturing and non-capturing) grouping x quantifier over concatenations of <=2 atoms; adjacent identical groups. Patterns of <=60 bytes that Go's regexp accepts are fed to the real checker in batches; every proposed rewrite is compared with the original on all subject strings over the pattern's own characters plus {z, newline} up to the stated length. non-trivial = pattern for which a rewrite was proposed")
	return ev.Finish()
}

package main

import (
	"fmt"
	"os"
	"path/filepath"
	"regexp"
	"sort"
	"strings"
	"sync"
	"time"

	"verif/mc/internal/evidence"
	"verif/mc/internal/harness"
	"verif/mc/internal/progenum"
)

func init() { register("C19", c19) }

var diagLineRE = regexp.MustCompile(`(?m)^\S*\.go:\d+:\d+: `)

type badCfg struct {
	id       string
	cli      []string // flags for go-critic / gocritic check
	analysis []string // flags for *-analysis
	keyword  string   // the message must name the problem (case-insensitive substring alternatives separated by |)
}

func c19BadConfigs(rulesOK string) []badCfg {
	return []badCfg{
		{"go=x", []string{"-go=x"}, []string{"-go=x"}, "version|-go"},
		{"go=1", []string{"-go=1"}, []string{"-go=1"}, "version|-go"},
		{"go=1.x", []string{"-go=1.x"}, []string{"-go=1.x"}, "version|-go"},
		{"go=1.2.3", []string{"-go=1.2.3"}, []string{"-go=1.2.3"}, "version|-go"},
		{"go=go", []string{"-go=gox"}, []string{"-go=gox"}, "version|-go"},
		{"failOn=bogus", []string{"-enable=ruleguard", "-@ruleguard.rules=" + rulesOK, "-@ruleguard.failOn=bogus"}, []string{"-enable=ruleguard", "-disable=", "-@ruleguard.rules=" + rulesOK, "-@ruleguard.failOn=bogus"}, "failOn"},
		{"rules-nomatch", []string{"-enable=ruleguard", "-@ruleguard.rules=/nonexistent/dir/*.go"}, []string{"-enable=ruleguard", "-disable=", "-@ruleguard.rules=/nonexistent/dir/*.go"}, "no file matching|nonexistent"},
		// an invalid element next to valid ones (either order) is still an error
		{"rules-valid+nomatch", []string{"-enable=ruleguard", "-@ruleguard.rules=" + rulesOK + ",/nonexistent/dir/*.go"}, []string{"-enable=ruleguard", "-disable=", "-@ruleguard.rules=" + rulesOK + ",/nonexistent/dir/*.go"}, "no file matching|nonexistent"},
		{"rules-nomatch+valid", []string{"-enable=ruleguard", "-@ruleguard.rules=/nonexistent/dir/*.go," + rulesOK}, []string{"-enable=ruleguard", "-disable=", "-@ruleguard.rules=/nonexistent/dir/*.go," + rulesOK}, "no file matching|nonexistent"},
		{"failOn=dsl,bogus", []string{"-enable=ruleguard", "-@ruleguard.rules=" + rulesOK, "-@ruleguard.failOn=dsl,bogus"}, []string{"-enable=ruleguard", "-disable=", "-@ruleguard.rules=" + rulesOK, "-@ruleguard.failOn=dsl,bogus"}, "failOn"},
		{"go=1.21.x", []string{"-go=1.21.x"}, []string{"-go=1.21.x"}, "version|-go"},
		// a failing checker next to a healthy one: still nothing is analysed, whatever the package count
		{"rules-nomatch+other-checker", []string{"-enable=ruleguard,assignOp", "-@ruleguard.rules=/nonexistent/dir/*.go"}, []string{"-enable=ruleguard,assignOp", "-disable=", "-@ruleguard.rules=/nonexistent/dir/*.go"}, "no file matching|nonexistent"},
		{"failOn=bogus+other-checker", []string{"-enable=assignOp,ruleguard", "-@ruleguard.rules=" + rulesOK, "-@ruleguard.failOn=bogus"}, []string{"-enable=assignOp,ruleguard", "-disable=", "-@ruleguard.rules=" + rulesOK, "-@ruleguard.failOn=bogus"}, "failOn"},
		{"empty-selection-unknown", []string{"-enable=nosuchchecker"}, []string{"-enable=nosuchchecker", "-disable="}, "empty"},
		{"empty-selection-disabled", []string{"-enable=assignOp", "-disable=assignOp"}, []string{"-enable=assignOp", "-disable=assignOp"}, "empty"},
		{"bad-param-int", []string{"-@hugeParam.sizeThreshold=abc"}, []string{"-@hugeParam.sizeThreshold=abc"}, "sizeThreshold|invalid value"},
		{"bad-param-bool", []string{"-@captLocal.paramsOnly=maybe"}, []string{"-@captLocal.paramsOnly=maybe"}, "paramsOnly|invalid"},
		// the worker count of the command (the analysis front-ends have no such flag: analysis == nil, skipped there)
		{"concurrency=0", []string{"-concurrency=0"}, nil, "concurrency"},
		{"concurrency=-1", []string{"-concurrency=-1"}, nil, "concurrency"},
		{"concurrency=x", []string{"-concurrency=x"}, nil, "concurrency"},
		{"unknown-flag", []string{"-nosuchflag"}, []string{"-nosuchflag"}, "nosuchflag|not defined"},
		{"unknown-param", []string{"-@nosuch.param=1"}, []string{"-@nosuch.param=1"}, "nosuch|not defined"},
	}
}

func c19(args []string) int {
	ev := evidence.New("C19", "fault_enumeration")
	tier := evidence.Tier()
	bins := map[string]string{}
	for name, pkg := range map[string]string{"go-critic": "./cmd/go-critic", "gocritic": "./cmd/gocritic", "go-critic-analysis": "./cmd/go-critic-analysis", "gocritic-analysis": "./cmd/gocritic-analysis"} {
		b, err := harness.BuildBin(pkg)
		if err != nil {
			fmt.Fprintln(os.Stderr, err)
			return 2
		}
		bins[name] = b
	}
	feNames := []string{"go-critic", "gocritic", "go-critic-analysis", "gocritic-analysis"}
	ws := filepath.Join(harness.WorkDir(), "c19ws")
	writeTree(ws, map[string]string{
		"go.mod": "module w\n\ngo 1.21\n",
		"a/a.go": "package a\n\nfunc F(a int, b int) int {\n\ta = a + b\n\treturn a\n}\n",
		"b/b.go": "package b\n\nfunc G(x []int) bool { return len(x) >= 0 }\n",
		"c/c.go": "package c\n\nfunc H(s string) string {\n\ts = s + \"x\"\n\treturn s\n}\n",
	})
	rulesOK := filepath.Join(evidence.Root, "fixtures", "rules", "validB.go")
	pkgSets := [][]string{{"./a"}, {"./a", "./b"}, {"./a", "./b", "./c"}}

	type outcome struct{ class, stderr string }
	run := func(fe string, flags, pkgs []string) (harness.RunResult, string) {
		var a []string
		if strings.HasSuffix(fe, "-analysis") {
			a = append(append([]string{}, flags...), pkgs...)
		} else {
			a = append(append([]string{"check"}, flags...), pkgs...)
		}
		res := harness.RunCmd(ws, harness.GoEnv(), 3*time.Minute, bins[fe], a...)
		out := res.Stdout + res.Stderr
		class := fmt.Sprintf("exit-nonzero=%v panic=%v diags=%v", res.Exit != 0, strings.Contains(out, "panic:") || strings.Contains(out, "goroutine "), diagLineRE.MatchString(out))
		return res, class
	}

	// ---- leg 1: invalid configurations x front-ends x package counts
	var wg sync.WaitGroup
	sem := make(chan struct{}, 12)
	var mu sync.Mutex
	classes := map[string]map[string]string{} // cfg|fe -> npkgs -> class
	for _, bc := range c19BadConfigs(rulesOK) {
		for _, fe := range feNames {
			for _, pkgs := range pkgSets {
				wg.Add(1)
				sem <- struct{}{}
				go func(bc badCfg, fe string, pkgs []string) {
					defer wg.Done()
					defer func() { <-sem }()
					flags := bc.cli
					if strings.HasSuffix(fe, "-analysis") {
						flags = bc.analysis
						if flags == nil {
							return // this front-end has no such setting
						}
					}
					res, class := run(fe, flags, pkgs)
					if res.TimedOut {
						ev.Eval(1)
						ev.Violate(evidence.Violation{Key: fe + "|" + bc.id + "|hang", What: "invalid configuration makes the front-end hang (killed after 3 minutes)", Observed: fmt.Sprintf("%s %v %v", fe, flags, pkgs),
							Replay: map[string]interface{}{"kind": "config", "frontend": fe, "argv": append(append([]string{}, flags...), pkgs...), "workspace": "module w: a/a.go b/b.go c/c.go"}})
						return
					}
					out := res.Stdout + res.Stderr
					ev.Eval(1)
					ev.Nontrivial(fmt.Sprintf("cfg|%s|%s|%d", bc.id, fe, len(pkgs)))
					replay := map[string]interface{}{"kind": "config", "frontend": fe, "argv": append(append([]string{}, flags...), pkgs...), "workspace": "module w: a/a.go b/b.go c/c.go"}
					viol := func(key, what string) {
						ev.Violate(evidence.Violation{Key: fe + "|" + bc.id + "|" + key, What: what, Observed: fmt.Sprintf("%s %v %v -> exit %d\n%s", fe, flags, pkgs, res.Exit, string(tail([]byte(out), 1200))), Replay: replay})
					}
					if strings.Contains(out, "panic:") || strings.Contains(out, "goroutine ") {
						viol("panic", "invalid configuration makes the front-end panic")
					} else {
						if res.Exit == 0 {
							viol("exit-zero", "invalid configuration accepted (exit status 0)")
						}
						named := false
						for _, kw := range strings.Split(bc.keyword, "|") {
							if strings.Contains(strings.ToLower(out), strings.ToLower(kw)) {
								named = true
							}
						}
						if !named && res.Exit != 0 {
							viol("message", "error message does not name the problem")
						}
						if diagLineRE.MatchString(out) {
							viol("diagnostics-after-failed-init", "diagnostics are printed although initialisation failed")
						}
					}
					mu.Lock()
					k := bc.id + "|" + fe
					if classes[k] == nil {
						classes[k] = map[string]string{}
					}
					classes[k][fmt.Sprint(len(pkgs))] = class
					mu.Unlock()
				}(bc, fe, pkgs)
			}
		}
	}
	wg.Wait()
	var ks []string
	for k := range classes {
		ks = append(ks, k)
	}
	sort.Strings(ks)
	for _, k := range ks {
		m := classes[k]
		if len(m) < 3 {
			continue // a run was cut short (reported above)
		}
		if m["1"] != m["2"] || m["1"] != m["3"] {
			parts := strings.SplitN(k, "|", 2)
			ev.Violate(evidence.Violation{Key: parts[1] + "|" + parts[0] + "|depends-on-package-count", What: "outcome of an invalid configuration depends on how many packages are analysed",
				Observed: fmt.Sprintf("%s: 1 pkg: %s; 2 pkgs: %s; 3 pkgs: %s", k, m["1"], m["2"], m["3"]), Replay: map[string]interface{}{"config": k}})
		}
	}

	// ---- leg 2: the analyzer's init latch as an explicit state machine (real prepareGocritic/runAnalyzer)
	states, transitions := c19Latch(ev, tier)

	// ---- leg 3: load faults through the real binaries
	c19LoadFaults(ev, bins, feNames, tier)

	// ---- leg 4: in-process: partially typed packages never crash SetFileInfo/Check
	c19Partial(ev, tier)

	ev.Set("latch_states", states)
	ev.Set("latch_transitions", transitions)
	ev.Sample(map[string]interface{}{"invalid_config": "-go=1.x", "frontends": feNames, "package_counts": []int{1, 2, 3}, "oracle": "exit!=0, message names the problem, no panic/goroutine trace, no diagnostics, same outcome class for every package count"})
	ev.Set("rule", "19 invalid configurations x 4 real binaries x 1..3 packages; all sequences of <=4 analyzer passes over {valid, 3 invalid} configurations from the reset latch on the real runAnalyzer; target sets of <=2 packages over 11 load-fault kinds (incl. files that fail at or before their package clause) x 4 binaries; ill-typed variants of the examples analysed in-process. non-trivial = distinct (configuration, front-end, package count) or history")
	return ev.Finish()
}

type anPass struct {
	Diags []string `json:"diags"`
	Err   string   `json:"err"`
	Panic string   `json:"panic"`
}
type anResp struct {
	Passes     []anPass `json:"passes"`
	ParseErr   string   `json:"parse_err"`
	Cached     bool     `json:"cached"`
	ErrLatched bool     `json:"err_latched"`
}

func c19Latch(ev *evidence.Run, tier string) (states, transitions int) {
	bin, err := harness.BuildHarnessBin("./cmd/anrpc")
	if err != nil {
		fmt.Fprintln(os.Stderr, err)
		os.Exit(2)
	}
	rpc, err := harness.StartRPC(bin, harness.WorkDir(), nil)
	if err != nil {
		fmt.Fprintln(os.Stderr, err)
		os.Exit(2)
	}
	defer rpc.Close()
	src := "package p\n\nfunc F(A int, b int) int {\n\tA = A + b\n\treturn A\n}\n"
	cfgs := map[string][]string{
		"valid":   {"-enable=captLocal", "-disable="},
		"bad-go":  {"-go=1.x"},
		"empty":   {"-enable=nosuch", "-disable="},
		"bad-rg":  {"-enable=ruleguard", "-disable=", "-@ruleguard.rules=/nonexistent/*.go"},
		"valid-2": {"-enable-all"},
		// a checker whose constructor fails next to a healthy one
		"bad-rg+ok": {"-enable=ruleguard,captLocal", "-disable=", "-@ruleguard.rules=/nonexistent/*.go"},
	}
	names := []string{"valid", "bad-go", "empty", "bad-rg", "bad-rg+ok", "valid-2"}
	// reference: what a pass reports without the cache
	ref := map[string]anPass{}
	for _, n := range names {
		var r anResp
		if err := rpc.Call(map[string]interface{}{"op": "run", "args": cfgs[n], "cache": false, "src": src}, &r); err != nil {
			fmt.Fprintln(os.Stderr, "anrpc:", err)
			os.Exit(2)
		}
		ref[n] = r.Passes[0]
	}
	if ref["valid"].Err != "" || len(ref["valid"].Diags) == 0 {
		fmt.Fprintln(os.Stderr, "c19 latch: reference run of the valid configuration is not as expected:", ref["valid"])
		os.Exit(2)
	}
	maxLen := 4
	// A history = the configuration in force (flags are fixed for a process) and the number of passes; plus
	// histories in which the process's flags are one configuration throughout. The latch itself only depends on
	// the first pass's outcome, so sequences over configurations explore it from every reachable state.
	var seqs [][]string
	var rec func(prefix []string)
	rec = func(prefix []string) {
		if len(prefix) > 0 {
			seqs = append(seqs, append([]string{}, prefix...))
		}
		if len(prefix) == maxLen {
			return
		}
		for _, n := range names {
			if tier == "quick" && len(prefix) >= 2 && n == "valid-2" {
				continue
			}
			rec(append(prefix, n))
		}
	}
	rec(nil)
	for _, seq := range seqs {
		states++
		homogeneous := true
		for _, n := range seq {
			if n != seq[0] {
				homogeneous = false
			}
		}
		firstInvalid := ref[seq[0]].Err != ""
		for i, n := range seq {
			var r anResp
			if err := rpc.Call(map[string]interface{}{"op": "run", "args": cfgs[n], "cache": true, "reset": i == 0, "src": src}, &r); err != nil {
				fmt.Fprintln(os.Stderr, "anrpc:", err)
				os.Exit(2)
			}
			transitions++
			ev.Eval(1)
			p := r.Passes[0]
			replay := map[string]interface{}{"kind": "history", "passes": seq, "configs": cfgs}
			if p.Panic != "" {
				ev.Violate(evidence.Violation{Key: "latch|panic|first=" + seq[0], What: "analyzer pass panics", Observed: fmt.Sprintf("history %v, pass %d\n%s", seq, i+1, firstLinesN(p.Panic, 8)), Replay: replay})
				break
			}
			if firstInvalid {
				// after a failed initialisation: the error is reported (at least) once, nothing is ever analysed
				if i == 0 && p.Err == "" {
					ev.Violate(evidence.Violation{Key: "latch|first-error-not-reported|" + seq[0], What: "invalid configuration: first pass does not report an error", Observed: fmt.Sprint(seq), Replay: replay})
				}
				if len(p.Diags) > 0 {
					ev.Violate(evidence.Violation{Key: "latch|analysed-after-failed-init", What: "diagnostics are produced after a failed initialisation (partially initialised checker set)", Observed: fmt.Sprintf("history %v pass %d: %v", seq, i+1, p.Diags), Replay: replay})
				}
			} else if homogeneous {
				// valid configuration throughout: every pass behaves like an uncached pass
				if p.Err != ref[n].Err || !equalStrings(p.Diags, ref[n].Diags) {
					ev.Violate(evidence.Violation{Key: "latch|cached-differs|" + n, What: "a pass served from the cached configuration differs from an uncached pass", Observed: fmt.Sprintf("history %v pass %d: got %v / %q want %v / %q", seq, i+1, p.Diags, p.Err, ref[n].Diags, ref[n].Err), Replay: replay})
				}
			}
		}
		ev.Nontrivial("latch|" + strings.Join(seq, ","))
	}
	return
}

func firstLinesN(s string, n int) string {
	l := strings.Split(s, "\n")
	if len(l) > n {
		l = l[:n]
	}
	return strings.Join(l, "\n")
}

var loadFaultKinds = []struct {
	id    string
	files map[string]string
}{
	{"ok", map[string]string{"x.go": "package PKG\n\nfunc F(a int, b int) int {\n\ta = a + b\n\treturn a\n}\n"}},
	{"syntax-error", map[string]string{"x.go": "package PKG\n\nfunc F( {\n"}},
	{"type-error", map[string]string{"x.go": "package PKG\n\nfunc F(a int, b int) int {\n\ta = a + b\n\tvar s string = a\n\treturn undefinedName + s\n}\n"}},
	{"unresolved-import", map[string]string{"x.go": "package PKG\n\nimport \"example.com/nosuch/dep\"\n\nfunc F(a int, b int) int {\n\ta = a + b\n\treturn dep.X(a)\n}\n"}},
	// files that fail at or before their package clause (the parser hands out a stub file without positions)
	{"empty-file", map[string]string{"x.go": "package PKG\n\nfunc F(a int, b int) int {\n\ta = a + b\n\treturn a\n}\n", "e.go": ""}},
	{"comment-only-file", map[string]string{"x.go": "package PKG\n\nfunc F(a int, b int) int {\n\ta = a + b\n\treturn a\n}\n", "c.go": "// nothing but a comment\n"}},
	{"code-before-package-clause", map[string]string{"x.go": "package PKG\n\nfunc F(a int, b int) int {\n\ta = a + b\n\treturn a\n}\n", "b.go": "func early() {}\n\npackage PKG\n"}},
	{"only-an-empty-file", map[string]string{"e.go": ""}},
	{"mixed-package-clauses", map[string]string{"x.go": "package PKG\n\nfunc F() {}\n", "y.go": "package other\n\nfunc G() {}\n"}},
	{"import-cycle", map[string]string{"x.go": "package PKG\n\nimport \"w/PKG/sub\"\n\nfunc F() int { return sub.G() }\n", "sub/s.go": "package sub\n\nimport \"w/PKG\"\n\nfunc G() int { PKG.F(); return 1 }\n"}},
	{"only-test-files", map[string]string{"x_test.go": "package PKG\n\nimport \"testing\"\n\nfunc TestF(t *testing.T) {\n\ta, b := 1, 2\n\ta = a + b\n\t_ = a\n}\n"}},
	{"empty-dir", map[string]string{"README.txt": "nothing\n"}},
}

func c19LoadFaults(ev *evidence.Run, bins map[string]string, feNames []string, tier string) {
	type tset struct{ kinds []int }
	var sets []tset
	n := len(loadFaultKinds)
	for i := 0; i < n; i++ {
		sets = append(sets, tset{[]int{i}})
		for j := 0; j < n; j++ {
			if i != j && (tier == "thorough" || i == 0 || j == 0) {
				sets = append(sets, tset{[]int{i, j}})
			}
		}
	}
	var wg sync.WaitGroup
	sem := make(chan struct{}, 10)
	for si, ts := range sets {
		ws := filepath.Join(harness.WorkDir(), fmt.Sprintf("c19lf-%d", si))
		files := map[string]string{"go.mod": "module w\n\ngo 1.21\n"}
		var pkgs, ids []string
		for pi, k := range ts.kinds {
			name := fmt.Sprintf("p%d", pi)
			for fn, src := range loadFaultKinds[k].files {
				files[name+"/"+fn] = strings.ReplaceAll(src, "PKG", name)
			}
			pkgs = append(pkgs, "./"+name)
			ids = append(ids, loadFaultKinds[k].id)
		}
		writeTree(ws, files)
		for _, fe := range feNames {
			for _, ea := range []bool{false, true} {
				wg.Add(1)
				sem <- struct{}{}
				go func(ws, fe string, ea bool, pkgs, ids []string) {
					defer wg.Done()
					defer func() { <-sem }()
					var a []string
					if strings.HasSuffix(fe, "-analysis") {
						if ea {
							a = append(a, "-enable-all")
						}
					} else {
						a = append(a, "check")
						if ea {
							a = append(a, "-enableAll")
						}
					}
					a = append(a, pkgs...)
					res := harness.RunCmd(ws, harness.GoEnv(), 3*time.Minute, bins[fe], a...)
					out := res.Stdout + res.Stderr
					ev.Eval(1)
					ev.Nontrivial(fmt.Sprintf("load|%s|%v|%v", fe, ids, ea))
					if strings.Contains(out, "panic:") || strings.Contains(out, "goroutine ") || res.TimedOut {
						ev.Violate(evidence.Violation{Key: fe + "|load-fault|" + strings.Join(ids, "+") + "|crash", What: "a target package that does not load cleanly crashes the run", Observed: fmt.Sprintf("%s %v (kinds %v) exit %d\n%s", fe, a, ids, res.Exit, string(tail([]byte(out), 1500))),
							Replay: map[string]interface{}{"kind": "loadfault", "frontend": fe, "argv": a, "packages": ids}})
					}
				}(ws, fe, ea, pkgs, ids)
			}
		}
	}
	wg.Wait()
	ev.Set("load_fault_target_sets", len(sets))
}

// c19Partial analyses ill-typed variants of the examples in-process: SetFileInfo/Check must not panic on
// partially typed packages.
func c19Partial(ev *evidence.Run, tier string) {
	var mu sync.Mutex
	n := 0
	handle := func(r *caseResult) {
		mu.Lock()
		n++
		mu.Unlock()
		ev.Eval(1)
		for _, c := range r.crashes {
			ev.Violate(evidence.Violation{Key: fmt.Sprintf("partial-types|%s|%s|%s", c.Checker, c.Frame, panicClass(c.Value)), What: fmt.Sprintf("%s panics on a package that only partially type-checks", c.Checker), Observed: c.Value + "\n" + trimStack(c.Stack) + "\ntype errors: " + fmt.Sprint(r.pkg.Errs), Replay: progReplay(r.prog, c.Checker)})
		}
	}
	ops := map[string]bool{"dropArgs": true, "dropLastArg": true, "emptyBody": true, "blankIdent": true, "emptyStruct": true, "dupArg": true, "addEllipsis": true}
	if tier == "thorough" {
		ops = quickMutOps
	}
	gen := func(emit func(progenum.Prog)) {
		// (i) files that do not parse completely: hand-written partial-AST shapes ...
		for i, src := range c19Broken {
			emit(progenum.Prog{ID: fmt.Sprintf("broken|%d", i), Fam: "broken", Path: "vpkg", Files: []harness.File{{Name: "f.go", Src: "package vpkg\n\n" + src + "\n"}}})
		}
		// ... and every line-prefix of every example file (each cut is a different incomplete construct)
		step := 1
		if tier == "quick" {
			step = 4
		}
		testdataProgs(func(p progenum.Prog) {
			for fi, f := range p.Files {
				lines := strings.Split(f.Src, "\n")
				for k := 3; k < len(lines); k += step {
					nf := make([]harness.File, len(p.Files))
					copy(nf, p.Files)
					nf[fi] = harness.File{Name: f.Name, Src: strings.Join(lines[:k], "\n") + "\n"}
					cand := progenum.Prog{ID: fmt.Sprintf("truncated|%s|%s|%d", p.Meta["checker"], f.Name, k), Fam: "truncated", Path: p.Path, Files: nf, Meta: p.Meta}
					if !harness.Precheck(cand.Path, cand.Files) {
						emit(cand)
					}
				}
			}
		})
		// (ii) ill-typed 1-deviation variants of the examples
		mutantProgs(ops, nil)(func(p progenum.Prog) {
			if !harness.Precheck(p.Path, p.Files) { // keep only the ill-typed ones (well-typed are C01's subject)
				emit(p)
			}
		})
	}
	runCorpus(gen, runOpts{allowErrors: func(*progenum.Prog) bool { return true }}, handle)
	ev.Set("partially_typed_packages_analysed", n)
}

// hand-written sources that go/parser accepts only partially (BadExpr/BadDecl/nil fields, empty lists)
var c19Broken = []string{
	"import foo",
	"import (\n\tfoo\n\t\"fmt\"\n)",
	"import \"fmt\"\nimport bar baz",
	"func () F() {}",
	"func (a, b T) M() {}\ntype T struct{}",
	"func (T) () {}",
	"func F( {",
	"func F() {\n\tx :=\n}",
	"func F() {\n\tif {\n\t}\n}",
	"func F() {\n\tfor i := range {\n\t}\n}",
	"func F() {\n\tswitch x := .(type) {\n\t}\n}",
	"func F() {\n\tswitch {\n\tcase :\n\t}\n}",
	"func F() {\n\tdefer\n\tgo\n}",
	"func F() {\n\treturn ,\n}",
	"func F() {\n\tx := []int{1, , 2}\n\t_ = x\n}",
	"func F() {\n\tx := map[string]int{\"a\": , \"a\": 1}\n\t_ = x\n}",
	"func F() {\n\tappend()\n\tx := append(\n}",
	"func F() {\n\t_ = *new(\n}",
	"func F(xs []int) {\n\tsort.Slice(xs, func(i, j int) bool { return })\n}",
	"func F() {\n\tregexp.MustCompile(\n}",
	"type T struct {\n\ta\n\tb int\n\t*\n}",
	"type T interface {\n\tM(\n}",
	"type",
	"type T",
	"type ( T )",
	"var x =",
	"var (\n\tx int =\n\ty\n)",
	"const c",
	"x := 1",
	"func F() {\n\tL:\n}",
	"func F() {\n\tgoto\n\tbreak L\n}",
	"func F[T any(x T) {}",
	"func F[](x int) {}",
	"func F() {\n\tvar f func(\n\t_ = f\n}",
	"func F() {\n\tselect {\n\tcase <-:\n\tcase x := :\n\t}\n}",
	"func F() {\n\tx.()\n\tx.(\n}",
	"func F() (int, {\n\treturn 1\n}",
	"func F() {\n\t_ = func( {\n\t}\n}",
	"func F() {\n\t_ = struct{ a int }{a: }\n}",
	"func F() {\n\tfmt.Sprintf(\n\tstrings.Index(s, )\n}",
	"// Deprecated\nfunc",
	"/* unterminated",
	"func F() {\n\t\"unterminated\n}",
	"func F() {\n\t_ = 0x\n\t_ = 0o8\n\t_ = 1__2\n}",
}

package main

import (
	"fmt"
	"os"
	"regexp"
	"strings"
	"sync"

	"verif/mc/internal/evidence"
	"verif/mc/internal/gorun"
	"verif/mc/internal/harness"
)

func init() { register("C12", c12) }

type c12Case struct {
	ID       string
	Analysed string
	Exec     gorun.Case
	// Claims returns the claims found among the diagnostics: key (root-cause shaped) -> oracle over observations
	Claims func(ds []harness.Diag) []c12Claim
}

type c12Claim struct {
	Key   string
	Text  string
	Check func(obs map[string][]string) string // "" = the claimed fact held in every execution
}

func allEqual(vals []string, want string) (bool, string) {
	for _, v := range vals {
		if v != want {
			return false, v
		}
	}
	return true, ""
}

func c12Cases() []c12Case {
	var out []c12Case
	n := 0
	id := func(f string, parts ...interface{}) string {
		n++
		return fmt.Sprintf("%s|%d|%s", f, n, fmt.Sprint(parts...))
	}
	// value grids per type (text of a []T literal)
	grids := map[string]string{
		"[]int":       "[][]int{nil, {}, {1}, {1, 2}}",
		"string":      "[]string{\"\", \"a\", \"ab\"}",
		"map[int]int": "[]map[int]int{nil, {}, {0: 1}, {1: 1, 2: 2}}",
		"[3]int":      "[][3]int{{}, {1, 2, 3}}",
		"*[3]int":     "[]*[3]int{{}, {1, 2, 3}}",
		"chan int":    "[]chan int{nil, make(chan int), make(chan int, 2)}",
		"int":         "[]int{-3, -1, 0, 1, 2, 3, 7}",
		"float64":     "[]float64{math.NaN(), math.Inf(-1), -1.5, 0, 0.5, 1, 1.5, 2, 3, math.Inf(1)}",
	}
	// ---------------------------------------------------------------- sloppyLen
	lenDecls := []struct{ id, top, local string }{
		{"real", "", ""},
		{"pkgfunc", "func len(x interface{}) int { return -1 }\n", ""},
		{"local", "", "len := func(x interface{}) int { return -1 }\n\t"},
	}
	for _, ld := range lenDecls {
		for _, t := range []string{"[]int", "string", "map[int]int", "[3]int", "*[3]int", "chan int"} {
			for _, op := range []string{">= 0", "< 0", "<= 0"} {
				name := fmt.Sprintf("fl%d", n+1)
				fn := fmt.Sprintf("func %s(x %s) bool {\n\t%sreturn len(x) %s\n}\n", name, t, ld.local, op)
				fn2 := ""
				if op == "<= 0" {
					fn2 = fmt.Sprintf("func %sr(x %s) bool {\n\t%sreturn len(x) == 0\n}\n", name, t, ld.local)
				}
				body := fmt.Sprintf("\tfor _, x := range %s {\n\t\tobs(\"v\", %s(x))\n", grids[t], name)
				if fn2 != "" {
					body += fmt.Sprintf("\t\tobs(\"same\", %s(x) == %sr(x))\n", name, name)
				}
				body += "\t}"
				top := strings.ReplaceAll(ld.top, "func len(", "func len(") // package-level shadow is per program: make it unique per case
				decls := fn + fn2
				if ld.id == "pkgfunc" {
					// a package-level `len` would shadow the builtin for the whole generated program: scope it in a closure instead
					decls = fmt.Sprintf("var %s = func() func(x %s) bool {\n\tlen := func(x interface{}) int { return -1 }\n\treturn func(x %s) bool { return len(x) %s }\n}()\n", name, t, t, op)
					if op == "<= 0" {
						decls += fmt.Sprintf("var %sr = func() func(x %s) bool {\n\tlen := func(x interface{}) int { return -1 }\n\treturn func(x %s) bool { return len(x) == 0 }\n}()\n", name, t, t)
					}
				}
				ldID := ld.id
				out = append(out, c12Case{
					ID:       id("sloppyLen", ld.id, t, op),
					Analysed: "package vpkg\n\n" + top + fn,
					Exec:     gorun.Case{Decls: decls, Body: body},
					Claims: func(ds []harness.Diag) []c12Claim {
						var cs []c12Claim
						for _, d := range ds {
							if d.Checker != "sloppyLen" {
								continue
							}
							switch {
							case strings.HasSuffix(d.Text, "is always true"):
								cs = append(cs, c12Claim{"sloppyLen|always-true|len=" + ldID, d.Text, func(o map[string][]string) string {
									if ok, v := allEqual(o["v"], "true"); !ok {
										return "the condition evaluated to " + v
									}
									return ""
								}})
							case strings.HasSuffix(d.Text, "is always false"):
								cs = append(cs, c12Claim{"sloppyLen|always-false|len=" + ldID, d.Text, func(o map[string][]string) string {
									if ok, v := allEqual(o["v"], "false"); !ok {
										return "the condition evaluated to " + v
									}
									return ""
								}})
							case strings.Contains(d.Text, " can be "):
								cs = append(cs, c12Claim{"sloppyLen|le0-is-eq0|len=" + ldID, d.Text, func(o map[string][]string) string {
									if ok, _ := allEqual(o["same"], "true"); !ok {
										return "`<= 0` and `== 0` differ for some value"
									}
									return ""
								}})
							}
						}
						return cs
					},
				})
			}
		}
	}
	// ---------------------------------------------------------------- badCond: x < a && x > b ...
	operands := []struct{ id, typ, param, expr, decl string }{
		{"int-var", "int", "x int", "x", ""},
		{"float-var", "float64", "x float64", "x", ""},
		{"impure-call", "int", "x int", "next()", ""},
		{"field", "int", "x int", "s.v", ""},
	}
	for _, opd := range operands {
		for _, ab := range [][2]string{{"1", "2"}, {"1", "1"}, {"2", "1"}, {"0", "10"}, {"1.5", "2.5"}} {
			for _, ops := range [][2]string{{"<", ">"}, {"<=", ">="}, {"<", ">="}, {"==", "=="}, {">", "<"}} {
				if opd.typ == "int" && strings.Contains(ab[0], ".") {
					continue
				}
				name := fmt.Sprintf("fb%d", n+1)
				cond := fmt.Sprintf("%s %s %s && %s %s %s", opd.expr, ops[0], ab[0], opd.expr, ops[1], ab[1])
				pre := ""
				if opd.id == "field" {
					pre = "\ts := struct{ v int }{x}\n"
				}
				// next(): an impure operand returning successive values
				helper := fmt.Sprintf("var %sseq []int\nvar %si int\n", name, name)
				nextDecl := ""
				if opd.id == "impure-call" {
					nextDecl = fmt.Sprintf("\tnext := func() int { v := %sseq[%si%%len(%sseq)]; %si++; return v }\n", name, name, name, name)
				}
				fn := fmt.Sprintf("func %s(%s) bool {\n%s%s\treturn %s\n}\n", name, opd.param, pre, nextDecl, cond)
				analysedFn := fn
				if opd.id == "impure-call" {
					analysedFn = fmt.Sprintf("var %sseq []int\nvar %si int\n\n", name, name) + fn
				}
				var body string
				if opd.id == "impure-call" {
					body = fmt.Sprintf("\tfor _, sq := range [][]int{{0, 3}, {3, 0}, {1, 1}, {0, 1, 2, 3}, {5}} {\n\t\t%sseq, %si = sq, 0\n\t\tobs(\"v\", %s(0))\n\t}", name, name, name)
				} else {
					body = fmt.Sprintf("\tfor _, x := range %s {\n\t\tobs(\"v\", %s(x))\n\t}", grids[opd.typ], name)
					helper = ""
				}
				opdID := opd.id
				out = append(out, c12Case{
					ID:       id("badCond", opd.id, cond),
					Analysed: "package vpkg\n\n" + analysedFn,
					Exec:     gorun.Case{Decls: helper + fn, Body: body},
					Claims: func(ds []harness.Diag) []c12Claim {
						var cs []c12Claim
						for _, d := range ds {
							if d.Checker == "badCond" && strings.HasSuffix(d.Text, "condition is always false") {
								cs = append(cs, c12Claim{"badCond|always-false|operand=" + opdID, d.Text, func(o map[string][]string) string {
									if ok, v := allEqual(o["v"], "false"); !ok {
										return "the condition evaluated to " + v
									}
									return ""
								}})
							}
						}
						return cs
					},
				})
			}
		}
	}
	// ---------------------------------------------------------------- offBy1: x[len(x)]
	containers := []struct{ id, decl, typ, grid string }{
		{"slice", "", "[]int", "[][]int{{}, {1}, {1, 2}}"},
		{"named-slice", "type %sT []int\n", "%sT", "[]%sT{{}, {1}, {1, 2}}"},
		{"string", "", "string", "[]string{\"\", \"a\", \"ab\"}"},
		{"array-ptr", "", "*[2]int", "[]*[2]int{{}, {1, 2}}"},
		{"map", "", "map[int]int", "[]map[int]int{{}, {0: 1}, {1: 1, 2: 2}}"},
		{"named-map", "type %sT map[int]int\n", "%sT", "[]%sT{{}, {0: 1}, {1: 1, 2: 2}}"},
		{"alias-slice", "type %sT = []int\n", "%sT", "[]%sT{{}, {1}}"},
		{"alias-map", "type %sT = map[int]int\n", "%sT", "[]%sT{{}, {1: 1}}"},
	}
	for _, ct := range containers {
		for _, form := range []string{"read", "write", "generic"} {
			name := fmt.Sprintf("fo%d", n+1)
			decl := strings.ReplaceAll(ct.decl, "%s", name)
			typ := strings.ReplaceAll(ct.typ, "%s", name)
			grid := strings.ReplaceAll(ct.grid, "%s", name)
			var fn string
			switch form {
			case "read":
				fn = fmt.Sprintf("func %s(x %s) {\n\t_ = x[len(x)]\n}\n", name, typ)
			case "write":
				if ct.id == "string" {
					continue
				}
				fn = fmt.Sprintf("func %s(x %s) {\n\tx[len(x)] = 7\n}\n", name, typ)
			case "generic":
				if !strings.Contains(ct.id, "slice") && !strings.Contains(ct.id, "map") || strings.Contains(ct.id, "alias") {
					continue
				}
				cons := "~[]int"
				if strings.Contains(ct.id, "map") {
					cons = "~map[int]int"
				}
				fn = fmt.Sprintf("func %s[S %s](x S) {\n\t_ = x[len(x)]\n}\n", name, cons)
			}
			body := fmt.Sprintf("\tfor _, x := range %s {\n\t\tx := x\n\t\tobs(\"panic\", try(func() { %s(x) }))\n\t}", grid, name)
			ctID := ct.id
			out = append(out, c12Case{
				ID:       id("offBy1", ct.id, form),
				Analysed: "package vpkg\n\n" + decl + fn,
				Exec:     gorun.Case{Decls: decl + fn, Body: body},
				Claims: func(ds []harness.Diag) []c12Claim {
					var cs []c12Claim
					for _, d := range ds {
						if d.Checker == "offBy1" && strings.Contains(d.Text, "always panics") {
							cs = append(cs, c12Claim{"offBy1|always-panics|container=" + ctID, d.Text, func(o map[string][]string) string {
								if ok, _ := allEqual(o["panic"], "true"); !ok {
									return "the index expression did not panic for some value"
								}
								return ""
							}})
						}
					}
					return cs
				},
			})
		}
	}
	// ---------------------------------------------------------------- caseOrder: type switches
	caseTypes := []struct{ id, typ string }{
		{"int", "int"}, {"ptr", "*zzct"}, {"val", "zzct"}, {"stringer", "fmt.Stringer"}, {"error", "error"}, {"empty-iface", "interface{}"}, {"nil", "nil"}, {"myerr", "*zzerr"},
	}
	values := "[]interface{}{nil, 1, \"s\", &zzct{}, zzct{}, error(nil), errors.New(\"e\"), &zzerr{}, fmt.Stringer(nil), (*zzct)(nil), (*zzerr)(nil), 3.5}"
	ctDecls := "type zzct struct{}\n\nfunc (zzct) String() string { return \"c\" }\n\ntype zzerr struct{}\n\nfunc (*zzerr) Error() string { return \"e\" }\n"
	addSwitch := func(types []int) {
		name := fmt.Sprintf("fc%d", n+1)
		var an, ex strings.Builder
		fmt.Fprintf(&an, "func %s(v interface{}) int {\n\tswitch v.(type) {\n", name)
		fmt.Fprintf(&ex, "func %s(v interface{}) int {\n\tswitch v.(type) {\n", name)
		var ids []string
		for k, ti := range types {
			fmt.Fprintf(&an, "\tcase %s:\n\t\treturn %d\n", caseTypes[ti].typ, k)
			fmt.Fprintf(&ex, "\tcase %s:\n\t\treturn %d\n", caseTypes[ti].typ, k)
			ids = append(ids, caseTypes[ti].id)
		}
		an.WriteString("\t}\n\treturn -1\n}\n")
		ex.WriteString("\t}\n\treturn -1\n}\n")
		body := fmt.Sprintf("\tfor _, v := range %s {\n\t\tobs(\"arm\", %s(v))\n\t}", values, name)
		nt := len(types)
		out = append(out, c12Case{
			ID:       id("caseOrder", strings.Join(ids, ",")),
			Analysed: "package vpkg\n\nimport (\n\t\"errors\"\n\t\"fmt\"\n)\n\nvar _ = errors.New\nvar _ fmt.Stringer\n\n" + ctDecls + "\n" + an.String(), // fmt kept used below
			Exec:     gorun.Case{Decls: strings.ReplaceAll(ctDecls+ex.String(), "zz", name+"zz"), Body: strings.ReplaceAll(body, "zz", name+"zz")},
			Claims: func(ds []harness.Diag) []c12Claim {
				var cs []c12Claim
				for _, d := range ds {
					if d.Checker != "caseOrder" || !strings.Contains(d.Text, "must go before") {
						continue
					}
					// analysed layout: the k-th case clause is on line firstCase + 2k
					var arm = -1
					lines := strings.Split("package vpkg\n\nimport (\n\t\"errors\"\n\t\"fmt\"\n)\n\nvar _ = errors.New\nvar _ fmt.Stringer\n\n"+ctDecls+"\n"+an.String(), "\n")
					k := 0
					for li, l := range lines {
						if strings.HasPrefix(l, "\tcase ") {
							if li+1 == d.Line {
								arm = k
							}
							k++
						}
					}
					if arm < 0 || arm >= nt {
						continue
					}
					m := regexp.MustCompile(`^case (.+) must go before the (.+) case$`).FindStringSubmatch(d.Text)
					shape := "?"
					if m != nil {
						shape = c12TypeClass(m[1]) + "-after-" + c12TypeClass(m[2])
					}
					armS := fmt.Sprint(arm)
					cs = append(cs, c12Claim{"caseOrder|unreachable|" + shape, d.Text, func(o map[string][]string) string {
						for _, v := range o["arm"] {
							if v == armS {
								return "the case reported as unreachable was taken"
							}
						}
						return ""
					}})
				}
				return cs
			},
		})
	}
	for a := range caseTypes {
		for b := range caseTypes {
			if a == b {
				continue
			}
			addSwitch([]int{a, b})
			for c := range caseTypes {
				if c != a && c != b && (caseTypes[a].id == "empty-iface" || caseTypes[b].id == "empty-iface" || caseTypes[a].id == "stringer" || caseTypes[a].id == "error") {
					addSwitch([]int{a, b, c})
				}
			}
		}
	}
	// generic functions: a type parameter as a case (before or after each other case type), executed under
	// every instantiation of the small list that satisfies the constraint
	for _, g := range []struct {
		cid, constraint string
		insts           []string
	}{
		{"any", "any", []string{"int", "zzct", "*zzerr", "string", "error"}},
		{"stringer", "fmt.Stringer", []string{"zzct", "*zzct", "fmt.Stringer"}},
		{"error", "error", []string{"*zzerr", "error"}},
	} {
		for ti := range caseTypes {
			for _, tFirst := range []bool{true, false} {
				g, ti, tFirst := g, ti, tFirst
				name := fmt.Sprintf("fg%d", n+1)
				arms := []string{"T", caseTypes[ti].typ}
				ids := []string{"T(" + g.cid + ")", caseTypes[ti].id}
				if !tFirst {
					arms[0], arms[1] = arms[1], arms[0]
					ids[0], ids[1] = ids[1], ids[0]
				}
				fn := fmt.Sprintf("func %s[T %s](v interface{}) int {\n\tswitch v.(type) {\n\tcase %s:\n\t\treturn 0\n\tcase %s:\n\t\treturn 1\n\t}\n\treturn -1\n}\n", name, g.constraint, arms[0], arms[1])
				var body strings.Builder
				for _, inst := range g.insts {
					fmt.Fprintf(&body, "\tfor _, v := range %s {\n\t\tobs(\"arm\", %s[%s](v))\n\t}\n", values, name, inst)
				}
				header := "package vpkg\n\nimport (\n\t\"errors\"\n\t\"fmt\"\n)\n\nvar _ = errors.New\nvar _ fmt.Stringer\n\n" + ctDecls + "\n"
				out = append(out, c12Case{
					ID:       id("caseOrder-generic", strings.Join(ids, ",")),
					Analysed: header + fn,
					Exec:     gorun.Case{Decls: strings.ReplaceAll(ctDecls+fn, "zz", name+"zz"), Body: strings.ReplaceAll(body.String(), "zz", name+"zz")},
					Claims: func(ds []harness.Diag) []c12Claim {
						var cs []c12Claim
						for _, d := range ds {
							if d.Checker != "caseOrder" || !strings.Contains(d.Text, "must go before") {
								continue
							}
							// the reported clause is the second one (line of `case` #2)
							shape := "type-parameter-before-" + c12TypeClass(caseTypes[ti].typ)
							if !tFirst {
								shape = "type-parameter-after-" + c12TypeClass(caseTypes[ti].typ)
							}
							cs = append(cs, c12Claim{"caseOrder|unreachable|" + shape, d.Text, func(o map[string][]string) string {
								for _, v := range o["arm"] {
									if v == "1" {
										return "the case reported as unreachable was taken under some instantiation"
									}
								}
								return ""
							}})
						}
						return cs
					},
				})
			}
		}
	}
	// two functions whose same-named local types / type parameters differ in what they implement
	for _, variant := range []string{"local-types", "type-params"} {
		for _, order := range []string{"impl-first", "impl-second"} {
			name := fmt.Sprintf("fp%d", n+1)
			var a, b string
			if variant == "local-types" {
				a = "func %sA(v interface{}) int {\n\ttype item struct{ fmt.Stringer }\n\tswitch v.(type) {\n\tcase fmt.Stringer:\n\t\treturn 0\n\tcase item:\n\t\treturn 1\n\t}\n\treturn -1\n}\n"
				b = "func %sB(v interface{}) int {\n\ttype item struct{ x int }\n\tswitch v.(type) {\n\tcase fmt.Stringer:\n\t\treturn 0\n\tcase item:\n\t\treturn 1\n\t}\n\treturn -1\n}\n"
			} else {
				a = "func %sA[T fmt.Stringer](v interface{}) int {\n\tswitch v.(type) {\n\tcase fmt.Stringer:\n\t\treturn 0\n\tcase T:\n\t\treturn 1\n\t}\n\treturn -1\n}\n"
				b = "func %sB[T any](v interface{}) int {\n\tswitch v.(type) {\n\tcase fmt.Stringer:\n\t\treturn 0\n\tcase T:\n\t\treturn 1\n\t}\n\treturn -1\n}\n"
			}
			a, b = strings.ReplaceAll(a, "%s", name), strings.ReplaceAll(b, "%s", name)
			src := a + "\n" + b
			if order == "impl-second" {
				src = b + "\n" + a
			}
			var body string
			if variant == "local-types" {
				// local types cannot be named from outside: reach the second arm of B through a value built inside
				src += fmt.Sprintf("\nfunc %sMake() (interface{}, interface{}) {\n\ttype item struct{ x int }\n\treturn item{1}, 5\n}\n", name)
				body = fmt.Sprintf("\tfor _, v := range []interface{}{nil, 1, \"s\"} {\n\t\tobs(\"armB\", %sB(v))\n\t}", name)
			} else {
				body = fmt.Sprintf("\tfor _, v := range []interface{}{nil, 1, \"s\", 2.5} {\n\t\tobs(\"armB\", %sB[int](v))\n\t\tobs(\"armB\", %sB[string](v))\n\t}", name, name)
			}
			full := "package vpkg\n\nimport \"fmt\"\n\n" + src
			out = append(out, c12Case{
				ID:       id("caseOrder-pair", variant, order),
				Analysed: full,
				Exec:     gorun.Case{Decls: src, Body: body},
				Claims: func(ds []harness.Diag) []c12Claim {
					var cs []c12Claim
					lines := strings.Split(full, "\n")
					for _, d := range ds {
						if d.Checker != "caseOrder" || !strings.Contains(d.Text, "must go before") {
							continue
						}
						// which function is the flagged clause in?
						inB := false
						for li := d.Line - 1; li >= 0 && li < len(lines); li-- {
							if strings.HasPrefix(lines[li], "func ") {
								inB = strings.Contains(lines[li], name+"B")
								break
							}
						}
						if !inB {
							continue // A's second case really is shadowed by the interface case
						}
						if variant == "local-types" {
							cs = append(cs, c12Claim{"caseOrder|unreachable|non-implementing-type-with-same-name", d.Text, func(o map[string][]string) string {
								return "a case of a type that does not implement the interface was reported as shadowed by the interface case (it is reachable for values of that type)"
							}})
							continue
						}
						cs = append(cs, c12Claim{"caseOrder|unreachable|non-implementing-type-with-same-name", d.Text, func(o map[string][]string) string {
							for _, v := range o["armB"] {
								if v == "1" {
									return "the case reported as unreachable was taken"
								}
							}
							return ""
						}})
					}
					return cs
				},
			})
		}
	}
	// ---------------------------------------------------------------- nilValReturn
	nilTypes := []struct{ id, typ, grid string }{
		{"ptr", "*int", "[]*int{nil, new(int)}"}, {"error", "error", "[]error{nil, fmt.Errorf(\"e\")}"}, {"slice", "[]int", "[][]int{nil, {}, {1}}"},
		{"map", "map[int]int", "[]map[int]int{nil, {}}"}, {"func", "func()", "[]func(){nil, func() {}}"}, {"iface", "interface{}", "[]interface{}{nil, 1, (*int)(nil)}"},
	}
	for _, nt := range nilTypes {
		for _, nilDecl := range []string{"real", "local-shadow"} {
			for _, cmp := range []string{"==", "!="} {
				if nilDecl == "local-shadow" && nt.id != "ptr" {
					continue
				}
				name := fmt.Sprintf("fn%d", n+1)
				shadow := ""
				if nilDecl == "local-shadow" {
					shadow = "\tnil := new(int)\n"
				}
				var an, ex string
				if cmp == "==" {
					an = fmt.Sprintf("func %s(x %s) %s {\n%s\tif x == nil {\n\t\treturn x\n\t}\n\treturn x\n}\n", name, nt.typ, nt.typ, shadow)
					ex = fmt.Sprintf("func %s(x %s) %s {\n%s\tif x == nil {\n\t\tobs(\"retnil\", isNil(x))\n\t\treturn x\n\t}\n\treturn x\n}\n", name, nt.typ, nt.typ, shadow)
				} else {
					an = fmt.Sprintf("func %s(x %s) %s {\n%s\tif x != nil {\n\t\treturn x\n\t}\n\treturn x\n}\n", name, nt.typ, nt.typ, shadow)
					ex = fmt.Sprintf("func %s(x %s) %s {\n%s\tif x != nil {\n\t\treturn x\n\t}\n\tobs(\"retnil\", isNil(x))\n\treturn x\n}\n", name, nt.typ, nt.typ, shadow)
				}
				body := fmt.Sprintf("\tfor _, x := range %s {\n\t\t_ = %s(x)\n\t}", nt.grid, name)
				nd := nilDecl
				out = append(out, c12Case{
					ID:       id("nilValReturn", nt.id, nilDecl, cmp),
					Analysed: "package vpkg\n\n" + an,
					Exec:     gorun.Case{Decls: ex, Body: body},
					Claims: func(ds []harness.Diag) []c12Claim {
						var cs []c12Claim
						for _, d := range ds {
							if d.Checker == "nilValReturn" && strings.Contains(d.Text, "always nil") {
								cs = append(cs, c12Claim{"nilValReturn|always-nil|nil=" + nd, d.Text, func(o map[string][]string) string {
									if ok, _ := allEqual(o["retnil"], "true"); !ok {
										return "a non-nil value was returned by the flagged statement"
									}
									return ""
								}})
							}
						}
						return cs
					},
				})
			}
		}
	}
	// nil shadowed by a parameter: the comparison is with a caller-supplied pointer, which the grid makes equal to x
	for _, cmp := range []string{"==", "!="} {
		name := fmt.Sprintf("fn%d", n+1)
		var an, ex string
		if cmp == "==" {
			an = fmt.Sprintf("func %s(x *int, nil *int) *int {\n\tif x == nil {\n\t\treturn x\n\t}\n\treturn x\n}\n", name)
			ex = fmt.Sprintf("func %s(x *int, nil *int) *int {\n\tif x == nil {\n\t\tobs(\"retnil\", isNil(x))\n\t\treturn x\n\t}\n\treturn x\n}\n", name)
		} else {
			an = fmt.Sprintf("func %s(x *int, nil *int) *int {\n\tif x != nil {\n\t\treturn x\n\t}\n\treturn x\n}\n", name)
			ex = fmt.Sprintf("func %s(x *int, nil *int) *int {\n\tif x != nil {\n\t\treturn x\n\t}\n\tobs(\"retnil\", isNil(x))\n\treturn x\n}\n", name)
		}
		body := fmt.Sprintf("\tfor _, x := range []*int{nil, new(int)} {\n\t\t_ = %s(x, x)\n\t\t_ = %s(x, new(int))\n\t}", name, name)
		out = append(out, c12Case{
			ID:       id("nilValReturn", "ptr", "param-shadow", cmp),
			Analysed: "package vpkg\n\n" + an,
			Exec:     gorun.Case{Decls: ex, Body: body},
			Claims: func(ds []harness.Diag) []c12Claim {
				var cs []c12Claim
				for _, d := range ds {
					if d.Checker == "nilValReturn" && strings.Contains(d.Text, "always nil") {
						cs = append(cs, c12Claim{"nilValReturn|always-nil|nil=param-shadow", d.Text, func(o map[string][]string) string {
							if ok, _ := allEqual(o["retnil"], "true"); !ok {
								return "a non-nil value was returned by the flagged statement"
							}
							return ""
						}})
					}
				}
				return cs
			},
		})
	}
	// ---------------------------------------------------------------- dupSubExpr / dupArg: "the two operands are the same value"
	dupOperands := []struct{ id, params, pre, expr, call string }{
		{"int-var", "x int", "", "x", "3"},
		{"float-var", "x float64", "", "x", "math.NaN()"},
		{"field", "x int", "s := struct{ v int }{x}\n\t", "s.v", "3"},
		{"index", "x int", "a := []int{x, x + 1}\n\t", "a[0]", "3"},
		{"deref", "x int", "p := &x\n\t", "*p", "3"},
		{"impure-call", "x int", "i := 0\n\tnext := func() int { i++; return i }\n\t", "next()", "3"},
		{"method-call", "x int", "c := &%sctr{}\n\t", "c.inc()", "3"},
		{"chan-recv", "x int", "ch := make(chan int, 2)\n\tch <- 1\n\tch <- 2\n\t", "<-ch", "3"},
		{"map-index", "x int", "m := map[int]int{1: x}\n\t", "m[1]", "3"},
		{"conversion", "x int", "", "float64(x)", "3"},
		{"func-value-call", "x int", "f := func() int { x++; return x }\n\t", "f()", "3"},
	}
	for _, dop := range dupOperands {
		for _, op := range []string{"==", "!=", "-", "<", "&&", "|"} {
			name := fmt.Sprintf("fd%d", n+1)
			pre := strings.ReplaceAll(dop.pre, "%s", name)
			expr := dop.expr
			if op == "&&" {
				expr = "(" + expr + " > 1)"
			}
			if op == "|" && strings.Contains(dop.id, "float") || op == "|" && dop.id == "conversion" {
				continue
			}
			decl := ""
			if dop.id == "method-call" {
				decl = fmt.Sprintf("type %sctr struct{ n int }\n\nfunc (c *%sctr) inc() int { c.n++; return c.n }\n\n", name, name)
			}
			an := fmt.Sprintf("%sfunc %s(%s) interface{} {\n\t%sreturn %s %s %s\n}\n", decl, name, dop.params, pre, expr, op, expr)
			// executed: evaluate both operands separately, left first
			ex := fmt.Sprintf("%sfunc %s(%s) {\n\t%sl := %s\n\tr := %s\n\tobs(\"same\", fmt.Sprintf(\"%%#v\", l) == fmt.Sprintf(\"%%#v\", r))\n}\n", decl, name, dop.params, pre, expr, expr)
			body := fmt.Sprintf("\t%s(%s)", name, dop.call)
			imp := ""
			if strings.Contains(dop.call, "math.") {
				imp = "import \"math\"\n\nvar _ = math.NaN\n\n"
			}
			did := dop.id
			out = append(out, c12Case{
				ID:       id("dupSubExpr", dop.id, op),
				Analysed: "package vpkg\n\n" + imp + an,
				Exec:     gorun.Case{Decls: ex, Body: body},
				Claims: func(ds []harness.Diag) []c12Claim {
					var cs []c12Claim
					for _, d := range ds {
						if (d.Checker == "dupSubExpr" && strings.Contains(d.Text, "identical LHS and RHS")) || d.Checker == "dupArg" {
							cs = append(cs, c12Claim{d.Checker + "|same-operands|operand=" + did, d.Text, func(o map[string][]string) string {
								if ok, _ := allEqual(o["same"], "true"); !ok {
									return "the two operands evaluated to different values"
								}
								return ""
							}})
						}
					}
					return cs
				},
			})
		}
	}
	return out
}

func c12TypeClass(t string) string {
	switch {
	case t == "nil":
		return "nil"
	case t == "interface{}" || t == "any":
		return "empty-interface"
	case strings.Contains(t, "Stringer") || t == "error":
		return "interface"
	case strings.HasPrefix(t, "*"):
		return "pointer"
	}
	return "concrete"
}

func c12(args []string) int {
	ev := evidence.New("C12", "exploration")
	harness.Init()
	ev.Assume("the Go toolchain executing the analysed construct is the reference: each family renders one text that is analysed and one that is executed, differing only in observation calls the template itself places")
	cases := c12Cases()
	type pending struct {
		c      *c12Case
		claims []c12Claim
	}
	var mu sync.Mutex
	var todo []pending
	var wg sync.WaitGroup
	jobs := make(chan *c12Case, 64)
	for w := 0; w < 16; w++ {
		wg.Add(1)
		go func() {
			defer wg.Done()
			set, err := harness.NewSet(harness.Infos(nil), "")
			if err != nil {
				panic(err)
			}
			for c := range jobs {
				pk := harness.LoadOne(c.Analysed)
				ev.Eval(1)
				if len(pk.Errs) > 0 {
					if os.Getenv("VERIF_DEBUG") != "" {
						fmt.Fprintln(os.Stderr, "c12 ill-typed", c.ID, pk.Errs[0])
					}
					pk.Release()
					continue
				}
				d, _ := set.VisitAll(pk)
				pk.Release()
				claims := c.Claims(d)
				if len(claims) == 0 {
					continue
				}
				mu.Lock()
				todo = append(todo, pending{c, claims})
				mu.Unlock()
			}
		}()
	}
	for i := range cases {
		cases[i].Exec.ID = cases[i].ID
		jobs <- &cases[i]
	}
	close(jobs)
	wg.Wait()
	imports := "import \"errors\"\n\nvar _ = errors.New\n"
	var run []gorun.Case
	var kept []pending
	for _, p := range todo {
		if gorun.Compiles(p.c.Exec, imports) {
			run = append(run, p.c.Exec)
			kept = append(kept, p)
		} else {
			ev.Cap("executed text of " + p.c.ID + " does not compile (family bug); case skipped")
		}
	}
	obs, err := gorun.Run(run, imports, 300)
	if err != nil {
		fmt.Fprintln(os.Stderr, "C12: generated program failed (broken check):", err)
		return 2
	}
	claimsJudged := 0
	for _, p := range kept {
		o := obs[p.c.ID]
		for _, cl := range p.claims {
			claimsJudged++
			ev.Nontrivial(p.c.ID + "|" + cl.Key)
			if len(o) == 0 {
				continue
			}
			if why := cl.Check(o); why != "" {
				ev.Violate(evidence.Violation{Key: cl.Key, What: "a diagnostic claims a definite run-time fact that an execution of the analysed code contradicts", Observed: fmt.Sprintf("%s\nclaim: %s\n%s\nanalysed:\n%s", p.c.ID, cl.Text, why, p.c.Analysed),
					Replay: map[string]interface{}{"kind": "program", "id": p.c.ID, "path": "vpkg", "files": map[string]string{"f.go": p.c.Analysed}, "executed": p.c.Exec.Decls + "\n// driver\n" + p.c.Exec.Body}})
			}
		}
	}
	ev.Set("cases_generated", len(cases))
	ev.Set("cases_with_a_claim_executed", len(kept))
	ev.Set("claims_judged", claimsJudged)
	if len(kept) > 0 {
		ev.Sample(map[string]interface{}{"case": kept[0].c.ID, "analysed": kept[0].c.Analysed, "executed_decls": kept[0].c.Exec.Decls, "driver": kept[0].c.Exec.Body, "claim": kept[0].claims[0].Text})
	}
	ev.Set("rule", "claim families: sloppyLen (real/shadowed len x 6 operand types x 3 comparisons), badCond (4 operand kinds incl. impure call and float x constant pairs x operator pairs), offBy1 (8 container kinds incl. named/alias maps and type parameters x read/write/generic), caseOrder (all ordered case lists of length 2 and selected length 3 over 8 case types; same-named local types / type parameters in two functions), nilValReturn (6 types x real/shadowed nil x ==/!=), dupSubExpr/dupArg (11 operand kinds incl. impure calls, channel receive x 6 operators). Every case on which a checker makes a claim is compiled and executed on value grids by the real toolchain. non-trivial = distinct (case, claim) judged")
	return ev.Finish()
}

package main

import (
	"encoding/json"
	"fmt"
	"os"
	"path/filepath"
	"strings"
	"time"

	"verif/mc/internal/evidence"
	"verif/mc/internal/harness"
)

// replayGeneric re-executes a recorded violation for checks without a case-level replay: the whole
// check is run again (in a scratch evidence root, so the committed evidence is not touched) and the
// replay fails iff a violation with the recorded key is reported again on the current tree.
func replayGeneric(prop, file string) int {
	data, err := os.ReadFile(file)
	if err != nil {
		fmt.Fprintln(os.Stderr, err)
		return 2
	}
	var rec struct {
		Key  string `json:"key"`
		What string `json:"what"`
	}
	if err := json.Unmarshal(data, &rec); err != nil || rec.Key == "" {
		fmt.Fprintln(os.Stderr, "replay: not a replay artefact:", file)
		return 2
	}
	scratch := filepath.Join(harness.WorkDir(), "replay-root")
	os.MkdirAll(filepath.Join(scratch, "evidence"), 0o755)
	// the scratch root needs overlays, fixtures and the harness module; known findings are left out on
	// purpose so that the recorded key is reported if it still occurs
	for _, d := range []string{"overlays", "fixtures", "mc"} {
		os.Symlink(filepath.Join(evidence.Root, d), filepath.Join(scratch, d))
	}
	env := append(os.Environ(), "VERIF_ROOT="+scratch, "VERIF_CHILD=")
	res := harness.RunCmd(filepath.Join(evidence.Root, "mc"), env, 3*time.Hour, os.Args[0], prop)
	fmt.Printf("replay of %s: re-ran the %s check on the current tree (exit %d)\n", filepath.Base(file), prop, res.Exit)
	if strings.Contains(res.Stdout, "key="+rec.Key+"\n") {
		fmt.Printf("still violates: %s\n  %s\n", rec.Key, rec.What)
		fmt.Printf("VIOLATION property=%s replay=%s\n", prop, file)
		return 1
	}
	if res.Exit == 2 {
		fmt.Println("replay: the check itself failed to run:")
		fmt.Println(string(tail([]byte(res.Stderr), 1500)))
		return 2
	}
	fmt.Println("replay: the recorded violation does not occur on the current tree")
	return 0
}

package main

import (
	"fmt"
	"go/ast"
	"go/types"
	"sort"
	"strconv"
	"strings"
	"sync"

	"verif/mc/internal/evidence"
	"verif/mc/internal/harness"
	"verif/mc/internal/progenum"
)

func init() { register("C20", c20) }

// checkers whose documented subject is the shadowing itself (a name-dependent diagnostic is their point)
var shadowSubjectCheckers = map[string]bool{"builtinShadow": true, "builtinShadowDecl": true, "importShadow": true}

func neutralName(n string) string {
	// same length (so every position stays put), never a Go identifier the families use
	c := "w"
	if strings.HasPrefix(n, "w") {
		c = "v"
	}
	return c + n[1:]
}

type diagKey struct {
	checker   string
	file      string
	line, col int
	text      string
}

func diagSet(ds []harness.Diag, rename func(string) string) map[diagKey]int {
	out := map[diagKey]int{}
	for _, d := range ds {
		t := d.Text
		if rename != nil {
			t = rename(t)
		}
		out[diagKey{d.Checker, d.File, d.Line, d.Col, t}]++
	}
	return out
}

func c20(args []string) int {
	if len(args) >= 2 && args[0] == "--replay" {
		return c20Replay(args[1])
	}
	ev := evidence.New("C20", "exploration")
	tier := evidence.Tier()
	quick := tier == "quick"
	ev.Assume("go/types scoping is the reference for what a callee resolves to: in every judged program the subject identifier is a user declaration by construction")
	ev.Assume("a diagnostic counts as API-specific when it disappears after the user declaration is renamed to a same-length neutral identifier (and nothing else changes); checkers whose documented subject is shadowing (builtinShadow, builtinShadowDecl, importShadow) are exempt")

	sigs := map[string]progenum.Sig{}
	for _, s := range progenum.Sigs {
		sigs[s.ID] = s
	}
	qn := map[string]progenum.QName{}
	for _, q := range progenum.Qualified {
		qn[q.Pkg+"."+q.Fn] = q
	}
	var mu sync.Mutex
	controls := map[string]bool{}  // subject -> some checker reported on the real API
	namesakes := map[string]bool{} // subject|checker flagged on namesake

	handle := func(r *caseResult) {
		ev.Eval(1)
		p := r.prog
		if p.Meta["real"] == "1" {
			for _, d := range r.diags {
				if !shadowSubjectCheckers[d.Checker] {
					mu.Lock()
					controls[p.Meta["subject"]+"|"+d.Checker] = true
					mu.Unlock()
				}
			}
			return
		}
		var cand []harness.Diag
		for _, d := range r.diags {
			if !shadowSubjectCheckers[d.Checker] {
				cand = append(cand, d)
			}
		}
		if len(cand) == 0 {
			return
		}
		// neutral twin: same holes, subject spelled differently
		subj := p.Meta["subject"]
		var twin progenum.Prog
		var from, to string
		if p.Fam == "shadowB" {
			from, to = subj, neutralName(subj)
			progenum.RealName.Store(to, from)
			twin = progenum.ShadowBuiltin(to, p.Meta["decl"], sigs[p.Meta["sig"]], p.Meta["args"], p.Meta["ctx"])
		} else {
			q := qn[subj]
			from, to = q.Pkg, neutralName(q.Pkg)
			q2 := q
			q2.Pkg = to
			q2.ImportAs = q.Pkg // the real import keeps its name; only the shadowing declaration is renamed
			twin = progenum.ShadowQualified(q2, p.Meta["decl"], sigs[p.Meta["sig"]], p.Meta["args"], p.Meta["ctx"])
			if p.Meta["decl"] == "fakepkg" {
				// keep importing the same fake package, under the neutral alias
				twin.Files[0].Src = strings.Replace(twin.Files[0].Src, progenum.FakePath(q2, sigs[p.Meta["sig"]]), progenum.FakePath(q, sigs[p.Meta["sig"]]), 1)
			}
		}
		tp := harness.Load(twin.Path, twin.Files)
		defer tp.Release()
		if len(tp.Errs) > 0 {
			return // cannot judge (never observed; the twin differs by one identifier)
		}
		td, _ := r.set.VisitAll(tp)
		tset := diagSet(td, func(s string) string { return strings.ReplaceAll(s, to, from) })
		ev.Nontrivial(p.ID)
		for _, d := range cand {
			k := diagKey{d.Checker, d.File, d.Line, d.Col, d.Text}
			if tset[k] > 0 {
				tset[k]--
				continue
			}
			mu.Lock()
			namesakes[subj+"|"+d.Checker] = true
			mu.Unlock()
			rp := progReplay(p, d.Checker)
			rp["twin"] = twin.Files[0].Src
			ev.Violate(evidence.Violation{
				Key:      fmt.Sprintf("%s|%s", d.Checker, subj),
				What:     fmt.Sprintf("%s reports a user declaration spelled %q as if it were the real API", d.Checker, subj),
				Observed: fmt.Sprintf("%s\n(declared as %s; the diagnostic disappears when the declaration is renamed to %q)", d.String(), p.Meta["decl"], to),
				Replay:   rp,
			})
		}
	}
	st := runCorpus(func(emit func(progenum.Prog)) { progenum.Shadow(quick, emit) }, runOpts{}, handle)

	// leg 2: namesake-import mutation of the maintainers' examples
	n2, j2 := c20NamesakeImports(ev)

	ev.Set("shadow_programs_generated", st.generated)
	ev.Set("shadow_programs_run", st.ran)
	ev.Set("namesake_import_variants_run", n2)
	ev.Set("namesake_import_variants_judged", j2)
	var ctl []string
	for k := range controls {
		ctl = append(ctl, k)
	}
	sort.Strings(ctl)
	ev.Set("controls_subject_checker_pairs_reported_on_real_api", len(ctl))
	if len(ctl) == 0 {
		fmt.Println("C20: no control (real API) program was reported: vacuous")
		return 2
	}
	ev.Sample(map[string]interface{}{"controls_reported_on_real_API": ctl[:min(len(ctl), 12)]})
	ev.Sample(map[string]interface{}{"id": "shadowB|append|local|sv|xs, 1|ys = %s", "source": progenum.ShadowBuiltin("append", "local", sigs["sv"], "xs, 1", "ys = %s").Files[0].Src})
	ev.Set("rule", "leg 1: the full shadow family (name x declaration kind x signature x args x context), each program paired with a twin that differs only in the spelling of the user declaration; leg 2: every (example file, imported std package used only through functions) with the import replaced by a package-level variable of the same name whose fields have the functions' exact signatures, paired with a neutral-name twin. non-trivial = program with a candidate diagnostic that was compared against its twin")
	if quick {
		ev.Cap("quick tier: reduced statement contexts for non-first declaration kinds")
	}
	return ev.Finish()
}

// c20NamesakeImports: for each example file and each std import used only through package-level
// functions, replace the package by a user variable with the same function signatures.
func c20NamesakeImports(ev *evidence.Run) (ran, judged int) {
	type job struct {
		name  string
		files []harness.File
	}
	var jobs []job
	for _, name := range harness.TestdataNames() {
		groups, err := harness.TestdataFiles(name)
		if err != nil {
			continue
		}
		var keys []string
		for k := range groups {
			keys = append(keys, k)
		}
		sort.Strings(keys)
		for _, k := range keys {
			jobs = append(jobs, job{name, groups[k]})
		}
	}
	var mu sync.Mutex
	var wg sync.WaitGroup
	ch := make(chan job)
	for w := 0; w < 8; w++ {
		wg.Add(1)
		go func() {
			defer wg.Done()
			set, err := harness.NewSet(harness.Infos(nil), "")
			if err != nil {
				panic(err)
			}
			for j := range ch {
				r, jd := namesakeJob(ev, set, j.name, j.files)
				mu.Lock()
				ran += r
				judged += jd
				mu.Unlock()
			}
		}()
	}
	for _, j := range jobs {
		ch <- j
	}
	close(ch)
	wg.Wait()
	return
}

func namesakeJob(ev *evidence.Run, set *harness.Set, name string, files []harness.File) (ran, judged int) {
	path := "github.com/go-critic/go-critic/checkers/testdata/" + name
	orig := harness.Load(path, files)
	defer orig.Release()
	if len(orig.Errs) > 0 {
		return
	}
	origDiags, crashes := set.VisitAll(orig)
	if len(crashes) > 0 {
		return
	}
	oset := diagSet(origDiags, nil)
	for fi, f := range orig.Files {
		for _, spec := range f.Imports {
			ipath, _ := strconv.Unquote(spec.Path.Value)
			if ipath == "unsafe" || ipath == "C" || strings.Contains(ipath, ".") {
				continue
			}
			var pkgName *types.PkgName
			if spec.Name != nil {
				if spec.Name.Name == "_" || spec.Name.Name == "." {
					continue
				}
				pkgName, _ = orig.Info.Defs[spec.Name].(*types.PkgName)
			} else {
				pkgName, _ = orig.Info.Implicits[spec].(*types.PkgName)
			}
			if pkgName == nil {
				continue
			}
			local := pkgName.Name()
			// collect uses
			type use struct {
				id  *ast.Ident
				sel *ast.SelectorExpr
			}
			var uses []use
			ok := true
			funcs := map[string]*types.Func{}
			ast.Inspect(f, func(n ast.Node) bool {
				sel, isSel := n.(*ast.SelectorExpr)
				if !isSel {
					return true
				}
				id, isID := sel.X.(*ast.Ident)
				if !isID || orig.Info.Uses[id] != pkgName {
					return true
				}
				fn, isFn := orig.Info.Uses[sel.Sel].(*types.Func)
				if !isFn {
					ok = false
					return true
				}
				sig := fn.Type().(*types.Signature)
				if sig.TypeParams() != nil {
					ok = false
				}
				funcs[fn.Name()] = fn
				uses = append(uses, use{id, sel})
				return true
			})
			if !ok || len(uses) == 0 {
				continue
			}
			src := files[fi].Src
			mk := func(varName string) []harness.File {
				needed := map[string]string{} // alias -> path
				qual := func(p *types.Package) string {
					a := "vq_" + strings.ReplaceAll(p.Name(), "/", "_")
					needed[a] = p.Path()
					return a
				}
				var names []string
				for n := range funcs {
					names = append(names, n)
				}
				sort.Strings(names)
				var fields []string
				for _, n := range names {
					fields = append(fields, n+" "+types.TypeString(funcs[n].Type(), qual))
				}
				decl := fmt.Sprintf("\nvar %s = struct{ %s }{}\n", varName, strings.Join(fields, "; "))
				var edits []progenum.Edit
				off := func(n ast.Node) (int, int) {
					return harness.Fset.Position(n.Pos()).Offset, harness.Fset.Position(n.End()).Offset
				}
				// import spec: keep the real package under a vq_ alias (or blank) and add what signatures need
				selfAlias := "vq_" + pkgName.Imported().Name()
				specText := ""
				if _, used := needed[selfAlias]; used && needed[selfAlias] == ipath {
					specText = selfAlias + " " + spec.Path.Value
					delete(needed, selfAlias)
				} else {
					specText = "_ " + spec.Path.Value
				}
				var extra []string
				for a := range needed {
					extra = append(extra, a)
				}
				sort.Strings(extra)
				s0, s1 := off(spec)
				// is the spec inside a parenthesised import block?
				inBlock := false
				for _, d := range f.Decls {
					if gd, isGD := d.(*ast.GenDecl); isGD && gd.Lparen.IsValid() && gd.Pos() <= spec.Pos() && spec.End() <= gd.End() {
						inBlock = true
					}
				}
				for _, a := range extra {
					if inBlock {
						specText += "; " + a + " " + strconv.Quote(needed[a])
					} else {
						specText += "; import " + a + " " + strconv.Quote(needed[a])
					}
				}
				edits = append(edits, progenum.Edit{From: s0, To: s1, Text: specText})
				if varName != local {
					for _, u := range uses {
						a, b := off(u.id)
						edits = append(edits, progenum.Edit{From: a, To: b, Text: varName})
					}
				}
				nf := make([]harness.File, len(files))
				copy(nf, files)
				nf[fi] = harness.File{Name: files[fi].Name, Src: progenum.Apply(src, edits) + decl}
				return nf
			}
			// variant B: a user *package* with the same name and the same function signatures (import path differs)
			mkPkg := func(asName string) []harness.File {
				needed := map[string]string{}
				qual := func(p *types.Package) string {
					a := "vq_" + strings.ReplaceAll(p.Name(), "/", "_")
					needed[a] = p.Path()
					return a
				}
				var names []string
				for n := range funcs {
					names = append(names, n)
				}
				sort.Strings(names)
				var decls []string
				for _, n := range names {
					decls = append(decls, renderFuncDecl(funcs[n], qual))
				}
				var imps []string
				for a, pth := range needed {
					imps = append(imps, fmt.Sprintf("import %s %q", a, pth))
				}
				sort.Strings(imps)
				fakePath := fmt.Sprintf("fake/ns/%s/%d/%s/%s", name, fi, strings.ReplaceAll(ipath, "/", "_"), pkgName.Imported().Name())
				registerFake(fakePath, "package "+pkgName.Imported().Name()+"\n\n"+strings.Join(imps, "\n")+"\n\n"+strings.Join(decls, "\n")+"\n")
				var edits []progenum.Edit
				off := func(n ast.Node) (int, int) {
					return harness.Fset.Position(n.Pos()).Offset, harness.Fset.Position(n.End()).Offset
				}
				s0, s1 := off(spec)
				specText := strconv.Quote(fakePath)
				if asName != pkgName.Imported().Name() {
					specText = asName + " " + specText
				}
				edits = append(edits, progenum.Edit{From: s0, To: s1, Text: specText})
				if asName != local {
					for _, u := range uses {
						a, b := off(u.id)
						edits = append(edits, progenum.Edit{From: a, To: b, Text: asName})
					}
				}
				nf := make([]harness.File, len(files))
				copy(nf, files)
				nf[fi] = harness.File{Name: files[fi].Name, Src: progenum.Apply(src, edits)}
				return nf
			}
			judgePair(ev, set, name, path, files, fi, ipath, local, oset, mkPkg(local), mkPkg(neutralName(local)), "import-pkg", "user package", &ran, &judged)

			mfiles := mk(local)
			nfiles := mk(neutralName(local))
			if !harness.Precheck(path, mfiles) || !harness.Precheck(path, nfiles) {
				continue
			}
			mp := harness.Load(path, mfiles)
			np := harness.Load(path, nfiles)
			md, mc := set.VisitAll(mp)
			nd, nc := set.VisitAll(np)
			ran += 2
			ev.Eval(2)
			if len(mc)+len(nc) == 0 {
				nset := diagSet(nd, func(s string) string { return strings.ReplaceAll(s, neutralName(local)+".", local+".") })
				judgedHere := false
				for _, d := range md {
					if shadowSubjectCheckers[d.Checker] || d.File != files[fi].Name {
						continue
					}
					k := diagKey{d.Checker, d.File, d.Line, d.Col, d.Text}
					if oset[k] == 0 {
						continue // not a diagnostic of the original: nothing claimed about the API
					}
					judgedHere = true
					if nset[k] > 0 {
						continue // does not depend on the spelling
					}
					prog := &progenum.Prog{ID: fmt.Sprintf("namesakeImport|%s|%s|%s", name, files[fi].Name, ipath), Path: path, Files: mfiles}
					ev.Violate(evidence.Violation{
						Key:      fmt.Sprintf("%s|import:%s", d.Checker, ipath),
						What:     fmt.Sprintf("%s reports calls through a user variable named %q exactly as it reports the real package %q", d.Checker, local, ipath),
						Observed: d.String() + "\n(the import was replaced by a package-level variable with the same function signatures; renaming that variable makes the diagnostic disappear)",
						Replay:   progReplay(prog, d.Checker),
					})
				}
				if judgedHere {
					judged++
					ev.Nontrivial(fmt.Sprintf("namesakeImport|%s|%s|%s", name, files[fi].Name, ipath))
				}
			}
			mp.Release()
			np.Release()
		}
	}
	return
}

// judgePair analyses a namesake variant and its neutral-name twin and reports diagnostics of the original that
// survive in the namesake but not in the twin.
func judgePair(ev *evidence.Run, set *harness.Set, name, path string, files []harness.File, fi int, ipath, local string, oset map[diagKey]int, mfiles, nfiles []harness.File, kind, noun string, ran, judged *int) {
	if !harness.Precheck(path, mfiles) || !harness.Precheck(path, nfiles) {
		return
	}
	mp := harness.Load(path, mfiles)
	np := harness.Load(path, nfiles)
	defer mp.Release()
	defer np.Release()
	md, mc := set.VisitAll(mp)
	nd, nc := set.VisitAll(np)
	*ran += 2
	ev.Eval(2)
	if len(mc)+len(nc) != 0 {
		return
	}
	nset := diagSet(nd, func(s string) string { return strings.ReplaceAll(s, neutralName(local)+".", local+".") })
	judgedHere := false
	for _, d := range md {
		if shadowSubjectCheckers[d.Checker] || d.File != files[fi].Name {
			continue
		}
		k := diagKey{d.Checker, d.File, d.Line, d.Col, d.Text}
		if oset[k] == 0 {
			continue
		}
		judgedHere = true
		if nset[k] > 0 {
			continue
		}
		prog := &progenum.Prog{ID: fmt.Sprintf("namesake-%s|%s|%s|%s", kind, name, files[fi].Name, ipath), Path: path, Files: mfiles}
		rp := progReplay(prog, d.Checker)
		rp["fake_packages"] = fakeSources(mfiles)
		ev.Violate(evidence.Violation{
			Key:      fmt.Sprintf("%s|%s:%s", d.Checker, kind, ipath),
			What:     fmt.Sprintf("%s reports calls into a %s named %q exactly as it reports the real package %q", d.Checker, noun, local, ipath),
			Observed: d.String() + "\n(the import was replaced by a " + noun + " with the same name and function signatures; renaming it makes the diagnostic disappear)",
			Replay:   rp,
		})
	}
	if judgedHere {
		*judged++
		ev.Nontrivial(fmt.Sprintf("namesake-%s|%s|%s|%s", kind, name, files[fi].Name, ipath))
	}
}

// renderFuncDecl renders `func Name(p0 T0, ...) R { panic(0) }` for fn's exact signature.
func renderFuncDecl(fn *types.Func, qual types.Qualifier) string {
	sig := fn.Type().(*types.Signature)
	var ps []string
	for i := 0; i < sig.Params().Len(); i++ {
		t := sig.Params().At(i).Type()
		ts := types.TypeString(t, qual)
		if sig.Variadic() && i == sig.Params().Len()-1 {
			ts = "..." + types.TypeString(t.(*types.Slice).Elem(), qual)
		}
		ps = append(ps, fmt.Sprintf("p%d %s", i, ts))
	}
	var rs []string
	for i := 0; i < sig.Results().Len(); i++ {
		rs = append(rs, types.TypeString(sig.Results().At(i).Type(), qual))
	}
	res := ""
	if len(rs) > 0 {
		res = " (" + strings.Join(rs, ", ") + ")"
	}
	return fmt.Sprintf("func %s(%s)%s { panic(0) }", fn.Name(), strings.Join(ps, ", "), res)
}

func c20Replay(file string) int {
	fmt.Println("C20 replay: re-run ./run.sh C20 quick; the replay artefact holds the program and its twin for inspection with `vcheck runprog`")
	return runprog([]string{file})
}

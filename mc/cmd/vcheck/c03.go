package main

import (
	"encoding/json"
	"fmt"
	"os"
	"path/filepath"
	"runtime"
	"sort"
	"strings"
	"sync"
	"time"

	"github.com/go-critic/go-critic/linter"

	"verif/mc/internal/evidence"
	"verif/mc/internal/harness"
	"verif/mc/internal/progenum"
)

func init() { register("C03", c03) }

// a visit target: one file of one loaded package
type target struct {
	id   string
	pkg  *harness.Pkg
	file int
}

const c03Extra1 = `package extra1

import (
	re "regexp"
	"strings"
)

type later struct{}

func (l *later) M() {}

var pat = re.MustCompile("(?i)(?i)a|b|c")

func f(x interface{}, s string, fl float64) int {
	if s == "a" {
		return 1
	} else if s == "b" {
		return 2
	} else if s == "c" {
		return 3
	} else if strings.Contains(s, "d") {
		return 4
	}
	switch v := x.(type) {
	case int:
		return v
	case string:
		return len(v)
	}
	if !(fl+1 > 2) {
		return 0
	}
	m := map[string]int{"a": 1, "b": 2}
	_ = m
	defer func() {}()
	for i := 0; i < 3; i++ {
		defer println(i)
	}
	return 0
}
`

const c03Extra2 = `package extra2

type later struct{ x int }

type Reader interface{ Read() }

type Buffer struct{}

func (b *Buffer) WriteString(s string) {}
func (b *Buffer) Write(p []byte)     {}
func (b *Buffer) String() string     { return "" }

type Mutex struct{}

func (m *Mutex) Lock()   {}
func (m *Mutex) Unlock() {}

func g(b *Buffer, mu *Mutex, s string) {
	b.Write([]byte(s))
	b.WriteString(string([]byte(s)))
	mu.Lock()
	mu.Unlock()
	_ = len(s) >= 0
}

// no import in this file: locals spelled like packages that other files import
func noimp(fmt, strings, path, filepath, os, io, regexp, sync, bytes, time, sort, http, flag, errors, context, re int) int {
	return fmt + re + strings
}
`

// two files of one package with same-named function-local types of very different sizes
const c03Extra3 = `package extra2

func sizesA() int {
	type item struct{ a [1024]byte }
	var xs []item
	n := 0
	for _, x := range xs {
		n += int(x.a[0])
	}
	var arr [4]item
	for _, x := range arr {
		n += int(x.a[0])
	}
	return n
}
`

const c03Extra4 = `package extra2

func sizesB() int {
	type item struct{ a [1]byte }
	var xs []item
	n := 0
	for _, x := range xs {
		n += int(x.a[0])
	}
	var arr [4]item
	for _, x := range arr {
		n += int(x.a[0])
	}
	return n
}
`

func c03Targets(alphaOnly bool) ([]target, []target) {
	// alphabet for the exact BFS: example files of checkers that keep scratch state between nodes,
	// functions or files, plus two crafted packages and an empty file
	pick := []string{
		"ifElseChain/positive_tests.go", "typeSwitchVar/positive_tests.go", "badRegexp/positive_tests.go",
		"commentedOutCode/positive_tests.go", "typeDefFirst/positive_tests.go", "typeDefFirst/negative_tests.go",
		"boolExprSimplify/positive_tests.go", "dupImport/positive_tests.go", "exitAfterDefer/positive_tests.go",
		"mapKey/positive_tests.go", "regexpSimplify/positive_tests.go", "importShadow/positive_tests.go",
		"preferStringWriter/positive_tests.go", "deferInLoop/positive_tests.go", "sloppyLen/negative_tests.go",
		"badLock/positive_tests.go", "dupCase/positive_tests.go", "unlabelStmt/positive_tests.go",
	}
	var all, alpha []target
	byID := map[string]target{}
	need := map[string]bool{}
	for _, id := range pick {
		need[id[:strings.Index(id, "/")]] = true
	}
	for _, name := range harness.TestdataNames() {
		if alphaOnly && !need[name] {
			continue
		}
		pkgs, err := harness.LoadTestdata(name)
		if err != nil {
			continue
		}
		for _, p := range pkgs {
			if len(p.Errs) > 0 && name != "caseOrder" {
				continue
			}
			for i, fn := range p.Names {
				t := target{id: name + "/" + fn, pkg: p, file: i}
				all = append(all, t)
				byID[t.id] = t
			}
		}
	}
	for _, id := range pick {
		if t, ok := byID[id]; ok {
			alpha = append(alpha, t)
		}
	}
	e1 := harness.Load("extra1", []harness.File{{Name: "e1.go", Src: c03Extra1}})
	e2 := harness.Load("extra2", []harness.File{{Name: "e2.go", Src: c03Extra2}, {Name: "empty.go", Src: "package extra2\n"}, {Name: "e3.go", Src: c03Extra3}, {Name: "e4.go", Src: c03Extra4}})
	if len(e1.Errs)+len(e2.Errs) > 0 {
		fmt.Fprintln(os.Stderr, "c03 crafted packages do not type-check:", e1.Errs, e2.Errs)
		os.Exit(2)
	}
	ex := []target{{"extra1/e1.go", e1, 0}, {"extra2/e2.go", e2, 0}, {"extra2/empty.go", e2, 1}, {"extra2/e3.go", e2, 2}, {"extra2/e4.go", e2, 3}}
	alpha = append(alpha, ex...)
	all = append(all, ex...)
	return alpha, all
}

func visitTarget(s *harness.Set, t target, prevPkg **harness.Pkg) []string {
	setPkg := *prevPkg != t.pkg
	*prevPkg = t.pkg
	d, crashes := s.Visit(t.pkg, t.file, setPkg)
	out := harness.DiagStrings(d)
	for _, c := range crashes {
		out = append(out, "CRASH "+c.Checker+": "+c.Value)
	}
	return out
}

// c03ChildResult is what a BFS shard process reports.
type c03ChildResult struct {
	States      int64                `json:"states"`
	Transitions int64                `json:"transitions"`
	Nontrivial  []string             `json:"nontrivial"`
	Distinct    []string             `json:"distinct"`
	Violations  []evidence.Violation `json:"violations"`
}

// seqAt maps an index to a history: all sequences of length 1..depth over n letters, shorter first,
// lexicographic within a length.
func seqAt(idx int64, n, depth int) []int {
	pow := int64(n)
	for l := 1; l <= depth; l++ {
		if idx < pow {
			seq := make([]int, l)
			for k := l - 1; k >= 0; k-- {
				seq[k] = int(idx % int64(n))
				idx /= int64(n)
			}
			return seq
		}
		idx -= pow
		pow *= int64(n)
	}
	return nil
}

func seqCount(n, depth int) int64 {
	var total, pow int64 = 0, 1
	for l := 1; l <= depth; l++ {
		pow *= int64(n)
		total += pow
	}
	return total
}

// c03Child explores histories [lo,hi) of one label in a process of its own: constructing a rule-based checker
// loads a rule engine whose memory is not given back, so long enumerations are cut into short-lived shards.
func c03Child(label, sdepth, slo, shi, out string) int {
	var depth int
	var lo, hi int64
	fmt.Sscan(sdepth, &depth)
	fmt.Sscan(slo, &lo)
	fmt.Sscan(shi, &hi)
	harness.Init()
	infos := harness.Infos(nil)
	harness.ApplyParams(infos, harness.TestParams)
	var names []string
	switch label {
	case "rule-based":
		for _, in := range infos {
			if in.EmbeddedRuleguard {
				names = append(names, in.Name)
			}
		}
	case "user-rules":
		enableUserRules()
		names = []string{"ruleguard"}
	default:
		fmt.Fprintln(os.Stderr, "c03 child: unknown label", label)
		return 2
	}
	alpha, _ := c03Targets(true)
	fresh := func(t target) []string {
		s, err := harness.NewSet(harness.Infos(names), "")
		if err != nil {
			panic(err)
		}
		var prev *harness.Pkg
		return visitTarget(s, t, &prev)
	}
	ref := map[string][]string{}
	var res c03ChildResult
	distinct := map[string]bool{}
	for idx := lo; idx < hi; idx++ {
		seq := seqAt(idx, len(alpha), depth)
		if seq == nil {
			break
		}
		s, err := harness.NewSet(harness.Infos(names), "")
		if err != nil {
			panic(err)
		}
		var prev *harness.Pkg
		var o []string
		for _, i := range seq {
			o = visitTarget(s, alpha[i], &prev)
		}
		last := alpha[seq[len(seq)-1]]
		if _, ok := ref[last.id]; !ok {
			ref[last.id] = fresh(last)
		}
		res.States++
		res.Transitions += int64(len(seq))
		distinct[label+"|"+last.id+"|"+strings.Join(o, "\n")] = true
		if len(seq) > 1 {
			res.Nontrivial = append(res.Nontrivial, fmt.Sprint(label, seq))
		}
		if !equalStrings(o, ref[last.id]) {
			var hist []string
			for _, i := range seq {
				hist = append(hist, alpha[i].id)
			}
			ch := firstDiffChecker(o, ref[last.id])
			res.Violations = append(res.Violations, evidence.Violation{
				Key:      fmt.Sprintf("history|%s|%s", label, ch),
				What:     fmt.Sprintf("diagnostics of %s for a file differ after a history of earlier visits from those of a fresh instance", ch),
				Observed: fmt.Sprintf("history %v\nafter history: %v\nfresh:         %v", hist, diffOnly(o, ref[last.id]), diffOnly(ref[last.id], o)),
				Replay:   map[string]interface{}{"kind": "history", "checkers": label, "history": hist},
			})
		}
	}
	for k := range distinct {
		res.Distinct = append(res.Distinct, k)
	}
	data, _ := json.Marshal(res)
	if err := os.WriteFile(out, data, 0o644); err != nil {
		fmt.Fprintln(os.Stderr, err)
		return 2
	}
	return 0
}

func c03(args []string) int {
	// rule files import the ruleguard dsl package; it resolves through the harness module
	os.Chdir(filepath.Join(evidence.Root, "mc"))
	if len(args) >= 6 && args[0] == "--child" {
		return c03Child(args[1], args[2], args[3], args[4], args[5])
	}
	ev := evidence.New("C03", "model_checking")
	tier := evidence.Tier()
	harness.Init()
	infos := harness.Infos(nil)
	harness.ApplyParams(infos, harness.TestParams) // the example files are written for these parameter values
	var handNames, ruleNames []string
	for _, in := range infos {
		if in.EmbeddedRuleguard {
			ruleNames = append(ruleNames, in.Name)
			_ = ruleNames
		} else {
			handNames = append(handNames, in.Name)
		}
	}
	alpha, all := c03Targets(false)
	ev.Set("alphabet", func() []string {
		var s []string
		for _, t := range alpha {
			s = append(s, t.id)
		}
		return s
	}())

	var states, transitions int64
	var mu sync.Mutex
	distinctOut := map[string]bool{}

	// reference: fresh set, that file alone
	reference := func(names []string, ts []target) map[string][]string {
		ref := map[string][]string{}
		var wg sync.WaitGroup
		var rmu sync.Mutex
		sem := make(chan struct{}, runtime.GOMAXPROCS(0))
		for _, t := range ts {
			wg.Add(1)
			sem <- struct{}{}
			go func(t target) {
				defer wg.Done()
				defer func() { <-sem }()
				s, err := harness.NewSet(harness.Infos(names), "")
				if err != nil {
					panic(err)
				}
				var prev *harness.Pkg
				out := visitTarget(s, t, &prev)
				rmu.Lock()
				ref[t.id] = out
				rmu.Unlock()
			}(t)
		}
		wg.Wait()
		return ref
	}

	// exact exploration of all histories up to depth from the initial state (fresh set per history)
	bfs := func(label string, names []string, depth int) {
		ref := reference(names, alpha)
		type job struct{ seq []int }
		jobs := make(chan job, 1024)
		var wg sync.WaitGroup
		for w := 0; w < runtime.GOMAXPROCS(0); w++ {
			wg.Add(1)
			go func() {
				defer wg.Done()
				for j := range jobs {
					s, err := harness.NewSet(harness.Infos(names), "")
					if err != nil {
						panic(err)
					}
					var prev *harness.Pkg
					var out []string
					for _, i := range j.seq {
						out = visitTarget(s, alpha[i], &prev)
					}
					last := alpha[j.seq[len(j.seq)-1]]
					mu.Lock()
					states++
					transitions += int64(len(j.seq))
					distinctOut[label+"|"+last.id+"|"+strings.Join(out, "\n")] = true
					if os.Getenv("VERIF_DEBUG") != "" && states%2000 == 0 {
						var ms runtime.MemStats
						runtime.ReadMemStats(&ms)
						fmt.Fprintf(os.Stderr, "c03 mem: %s states=%d heapInuse=%dMB sys=%dMB numGC=%d\n", label, states, ms.HeapInuse>>20, ms.Sys>>20, ms.NumGC)
					}
					mu.Unlock()
					ev.Eval(1)
					if len(j.seq) > 1 {
						ev.Nontrivial(fmt.Sprint(label, j.seq))
					}
					if !equalStrings(out, ref[last.id]) {
						var hist []string
						for _, i := range j.seq {
							hist = append(hist, alpha[i].id)
						}
						ch := firstDiffChecker(out, ref[last.id])
						ev.Violate(evidence.Violation{
							Key:      fmt.Sprintf("history|%s|%s", label, ch),
							What:     fmt.Sprintf("diagnostics of %s for a file differ after a history of earlier visits from those of a fresh instance", ch),
							Observed: fmt.Sprintf("history %v\nafter history: %v\nfresh:         %v", hist, diffOnly(out, ref[last.id]), diffOnly(ref[last.id], out)),
							Replay:   map[string]interface{}{"kind": "history", "checkers": label, "history": hist},
						})
					}
				}
			}()
		}
		var gen func(prefix []int)
		gen = func(prefix []int) {
			if len(prefix) > 0 {
				jobs <- job{append([]int{}, prefix...)}
			}
			if len(prefix) == depth {
				return
			}
			for i := range alpha {
				gen(append(prefix, i))
			}
		}
		gen(nil)
		close(jobs)
		wg.Wait()
	}
	// the same exploration in short-lived shard processes (labels whose checkers load a rule engine on construction)
	bfsSharded := func(label string, depth int) bool {
		total := seqCount(len(alpha), depth)
		per := total / int64(3*runtime.GOMAXPROCS(0))
		if per < 12 {
			per = 12
		}
		if per > 150 {
			per = 150
		}
		type shard struct{ lo, hi int64 }
		var shards []shard
		for lo := int64(0); lo < total; lo += per {
			hi := lo + per
			if hi > total {
				hi = total
			}
			shards = append(shards, shard{lo, hi})
		}
		var wg sync.WaitGroup
		sem := make(chan struct{}, runtime.GOMAXPROCS(0))
		var failed []string
		for si, sh := range shards {
			wg.Add(1)
			sem <- struct{}{}
			go func(si int, sh shard) {
				defer wg.Done()
				defer func() { <-sem }()
				out := filepath.Join(harness.WorkDir(), fmt.Sprintf("c03-%s-%d.json", label, si))
				res := harness.RunCmd(filepath.Join(evidence.Root, "mc"), append(os.Environ(), "VERIF_CHILD=1", "GOMAXPROCS=2"), 60*time.Minute, os.Args[0], "C03", "--child", label, fmt.Sprint(depth), fmt.Sprint(sh.lo), fmt.Sprint(sh.hi), out)
				var r c03ChildResult
				data, err := os.ReadFile(out)
				os.Remove(out)
				mu.Lock()
				defer mu.Unlock()
				if res.Exit != 0 || err != nil || json.Unmarshal(data, &r) != nil {
					failed = append(failed, fmt.Sprintf("shard %d exit=%d: %s", si, res.Exit, tail([]byte(res.Stderr), 1200)))
					return
				}
				states += r.States
				transitions += r.Transitions
				ev.Eval(int(r.States))
				for _, id := range r.Nontrivial {
					ev.Nontrivial(id)
				}
				for _, d := range r.Distinct {
					distinctOut[d] = true
				}
				for _, v := range r.Violations {
					ev.Violate(v)
				}
			}(si, sh)
		}
		wg.Wait()
		if len(failed) > 0 {
			fmt.Fprintln(os.Stderr, "C03 shard failed (broken check):", failed[0])
			return false
		}
		return true
	}
	hd, rd := 3, 2
	if tier == "thorough" {
		hd, rd = 4, 3
	}
	bfs("hand-written", handNames, hd)
	if !bfsSharded("rule-based", rd) {
		return 2
	}
	// from here on the dynamic-rules checker runs user rules of every filter kind (package-, file- and
	// version-dependent ones included); constructing it loads the rule file, so its histories are explored apart
	if !bfsSharded("user-rules", rd) {
		return 2
	}
	enableUserRules()
	var handNoRG []string
	for _, n := range handNames {
		if n != "ruleguard" {
			handNoRG = append(handNoRG, n)
		}
	}
	ev.Set("bfs_depth_hand_written", hd)
	ev.Set("bfs_depth_rule_based", rd)

	// long histories: one long-lived full set walks an Eulerian tour of the complete digraph over all
	// example files, so every ordered pair (A,B) occurs as consecutive visits
	{
		ref := reference(nil, all)
		n := len(all)
		if tier == "quick" {
			// quick: complete digraph over every 3rd file plus the alphabet
			var sub []target
			for i, t := range all {
				if i%3 == 0 {
					sub = append(sub, t)
				}
			}
			all = sub
			n = len(all)
		}
		tour := eulerTour(n)
		ev.Set("tour_files", n)
		ev.Set("tour_visits", len(tour))
		// split the tour into 16 contiguous segments, one long-lived set each (segments overlap by one visit)
		nseg := runtime.GOMAXPROCS(0)
		var wg sync.WaitGroup
		for sgi := 0; sgi < nseg; sgi++ {
			lo, hi := sgi*len(tour)/nseg, (sgi+1)*len(tour)/nseg
			if sgi > 0 {
				lo--
			}
			wg.Add(1)
			go func(seg []int) {
				defer wg.Done()
				s, err := harness.NewSet(harness.Infos(nil), "")
				if err != nil {
					panic(err)
				}
				var prev *harness.Pkg
				for k, i := range seg {
					out := visitTarget(s, all[i], &prev)
					mu.Lock()
					states++
					transitions++
					mu.Unlock()
					ev.Eval(1)
					if !equalStrings(out, ref[all[i].id]) {
						// minimise: shortest suffix of the history that reproduces on a fresh set
						hist := []string{all[i].id}
						for back := 1; back <= 3 && back <= k; back++ {
							s2, _ := harness.NewSet(harness.Infos(nil), "")
							var p2 *harness.Pkg
							var o2 []string
							for _, j := range seg[k-back : k+1] {
								o2 = visitTarget(s2, all[j], &p2)
							}
							if !equalStrings(o2, ref[all[i].id]) {
								hist = nil
								for _, j := range seg[k-back : k+1] {
									hist = append(hist, all[j].id)
								}
								break
							}
						}
						ch := firstDiffChecker(out, ref[all[i].id])
						ev.Violate(evidence.Violation{
							Key:      fmt.Sprintf("history|tour|%s", ch),
							What:     fmt.Sprintf("diagnostics of %s for a file differ on a long-lived instance from those of a fresh instance", ch),
							Observed: fmt.Sprintf("file %s at tour position %d (minimised history: %v)\nlong-lived only: %v\nfresh only:      %v", all[i].id, k, hist, diffOnly(out, ref[all[i].id]), diffOnly(ref[all[i].id], out)),
							Replay:   map[string]interface{}{"kind": "history", "checkers": "all", "history": hist},
						})
					}
				}
			}(tour[lo:hi])
		}
		wg.Wait()
	}

	// type-graph leg: packages whose struct types embed each other in every possible way; every order of the
	// use-site files on one long-lived set, each file's output compared with a fresh set that sees only that file
	{
		var graphs, orders int64
		jobs := make(chan progenum.Prog, 64)
		var wg sync.WaitGroup
		for w := 0; w < runtime.GOMAXPROCS(0); w++ {
			wg.Add(1)
			go func() {
				defer wg.Done()
				for p0 := range jobs {
					p := progenum.ValidUseFiles(p0)
					if len(p.Files) < 3 {
						continue // fewer than two use sites: no order to explore
					}
					pk := harness.Load(p.Path, p.Files)
					if len(pk.Errs) > 0 {
						pk.Release()
						continue
					}
					nuse := len(p.Files) - 1
					ref := make([][]string, nuse)
					for u := 0; u < nuse; u++ {
						s, err := harness.NewSet(harness.Infos(handNoRG), "")
						if err != nil {
							panic(err)
						}
						var prev *harness.Pkg
						ref[u] = visitTarget(s, target{p.ID, pk, u + 1}, &prev)
					}
					mu.Lock()
					graphs++
					mu.Unlock()
					permute(nuse, func(perm []int) {
						s, err := harness.NewSet(harness.Infos(handNoRG), "")
						if err != nil {
							panic(err)
						}
						var prev *harness.Pkg
						mu.Lock()
						orders++
						states++
						transitions += int64(nuse)
						mu.Unlock()
						ev.Eval(1)
						ev.Nontrivial("embed|" + p.ID + fmt.Sprint(perm))
						for _, u := range perm {
							out := visitTarget(s, target{p.ID, pk, u + 1}, &prev)
							if !equalStrings(out, ref[u]) {
								files := map[string]string{}
								for _, f := range p.Files {
									files[f.Name] = f.Src
								}
								var order []string
								for _, v := range perm {
									order = append(order, p.Files[v+1].Name)
								}
								ch := firstDiffChecker(out, ref[u])
								ev.Violate(evidence.Violation{
									Key:      fmt.Sprintf("history|type-graph|%s", ch),
									What:     fmt.Sprintf("diagnostics of %s for a file depend on which other files of the package were analysed before (types that embed each other)", ch),
									Observed: fmt.Sprintf("%s\norder %v, file %s\nafter the earlier files: %v\nfresh:                 %v", p.ID, order, p.Files[u+1].Name, diffOnly(out, ref[u]), diffOnly(ref[u], out)),
									Replay:   map[string]interface{}{"kind": "file-order", "path": p.Path, "files": files, "order": order},
								})
								return
							}
						}
					})
					pk.Release()
				}
			}()
		}
		progenum.EmbedGraphs(2, 3, func(p progenum.Prog) { jobs <- p })
		if tier == "thorough" {
			progenum.EmbedGraphs(3, 2, func(p progenum.Prog) { jobs <- p })
		}
		close(jobs)
		wg.Wait()
		ev.Set("type_graph_packages_with_2plus_use_sites", graphs)
		ev.Set("type_graph_file_orders", orders)
		if graphs == 0 {
			fmt.Fprintln(os.Stderr, "C03: no type-graph package had two use sites (broken check)")
			return 2
		}
	}

	// CLI leg: argument order and grouping
	c03cli(ev, tier)

	ev.Set("states", states)
	ev.Set("transitions", transitions)
	ev.Set("traces_validated_against_impl", states)
	ev.Set("distinct_outputs", len(distinctOut))
	ev.Sample(map[string]interface{}{"history": []string{alpha[0].id, alpha[4].id, alpha[0].id}, "oracle": "output for the last visit == output of a fresh checker set on that file alone"})
	ev.Set("rule", "states = histories (sequences of (package,file) visits) executed on real long-lived checker sets: all sequences up to the stated depth over the alphabet from the initial state (a fresh set per history), plus an Eulerian tour over the complete digraph of example files (every ordered pair as consecutive visits on one long-lived full set), plus, for every package of the type-graph family (2 struct types, each embedding every ordered selection of the other type, a Query+Exec type and a Query-only type; thorough: 3 types), every order of its use-site files on one long-lived set, plus every argument permutation/grouping of a 3-package workspace through the real binary. The dynamic-rules checker with the filter-kind fixture of user rules has a BFS of its own and takes part in the tour. Every history is an implementation run, so traces_validated_against_impl = states")
	return ev.Finish()
}

// permute calls f with every permutation of 0..n-1.
func permute(n int, f func([]int)) {
	perm := make([]int, n)
	for i := range perm {
		perm[i] = i
	}
	var rec func(k int)
	rec = func(k int) {
		if k == n {
			f(append([]int{}, perm...))
			return
		}
		for i := k; i < n; i++ {
			perm[k], perm[i] = perm[i], perm[k]
			rec(k + 1)
			perm[k], perm[i] = perm[i], perm[k]
		}
	}
	rec(0)
}

func equalStrings(a, b []string) bool {
	if len(a) != len(b) {
		return false
	}
	for i := range a {
		if a[i] != b[i] {
			return false
		}
	}
	return true
}

func diffOnly(a, b []string) []string {
	in := map[string]int{}
	for _, x := range b {
		in[x]++
	}
	var out []string
	for _, x := range a {
		if in[x] > 0 {
			in[x]--
		} else {
			out = append(out, x)
		}
	}
	return out
}

func firstDiffChecker(a, b []string) string {
	d := append(diffOnly(a, b), diffOnly(b, a)...)
	if len(d) == 0 {
		return "order-only"
	}
	parts := strings.SplitN(d[0], ": ", 3)
	if len(parts) >= 2 {
		if strings.HasPrefix(d[0], "CRASH ") {
			return strings.TrimSuffix(strings.TrimPrefix(parts[0], "CRASH "), ":")
		}
		return parts[1]
	}
	return "?"
}

// eulerTour returns a closed walk using every arc (i,j), i!=j, of the complete digraph on n nodes
// exactly once (Hierholzer).
func eulerTour(n int) []int {
	if n <= 1 {
		return []int{0}
	}
	next := make([]int, n) // next neighbour offset to use per node
	var stack, tour []int
	stack = append(stack, 0)
	for len(stack) > 0 {
		v := stack[len(stack)-1]
		if next[v] < n-1 {
			off := next[v] + 1 // neighbours v+1, v+2, ... mod n
			next[v]++
			stack = append(stack, (v+off)%n)
		} else {
			tour = append(tour, v)
			stack = stack[:len(stack)-1]
		}
	}
	// reverse
	for i, j := 0, len(tour)-1; i < j; i, j = i+1, j-1 {
		tour[i], tour[j] = tour[j], tour[i]
	}
	return tour
}

// ---------------------------------------------------------------------------------------------

func writeTree(root string, files map[string]string) {
	for name, src := range files {
		p := filepath.Join(root, name)
		os.MkdirAll(filepath.Dir(p), 0o755)
		os.WriteFile(p, []byte(src), 0o644)
	}
}

func c03cli(ev *evidence.Run, tier string) {
	bin, err := harness.BuildBin("./cmd/go-critic")
	if err != nil {
		fmt.Fprintln(os.Stderr, err)
		os.Exit(2)
	}
	ws := filepath.Join(harness.WorkDir(), "c03ws")
	writeTree(ws, map[string]string{
		"go.mod":  "module w\n\ngo 1.21\n",
		"a/a.go":  strings.Replace(c03Extra1, "package extra1", "package a", 1),
		"a/a2.go": "package a\n\nfunc h(xs []int, s string) []int {\n\tys := append(xs, 1)\n\ts = s + \"x\"\n\t_ = s\n\treturn ys\n}\n",
		"b/b.go":  strings.Replace(c03Extra2, "package extra2", "package b", 1),
		"b/b2.go": "package b\n\nfunc k(x int) bool {\n\tif x == 1 {\n\t\treturn true\n\t} else {\n\t\tif x == 2 {\n\t\t\treturn false\n\t\t}\n\t}\n\treturn x >= 0 && x >= 0\n}\n",
		"c/c.go":  "package c\n\nimport \"strings\"\n\ntype later struct{}\n\nfunc (later) M() {}\n\nfunc z(s string) bool { return strings.Index(s, \"a\") != -1 }\n",
	})
	pkgs := []string{"./a", "./b", "./c"}
	run := func(args []string, conc string) (map[string][]string, string) {
		a := []string{"check", "-enableAll"}
		if conc != "" {
			a = append(a, "-concurrency="+conc)
		}
		a = append(a, args...)
		res := harness.RunCmd(ws, harness.GoEnv(), 3*time.Minute, bin, a...)
		perFile := map[string][]string{}
		for _, l := range strings.Split(res.Stderr, "\n") {
			if i := strings.Index(l, ".go:"); i > 0 {
				perFile[l[:i+3]] = append(perFile[l[:i+3]], l)
			}
		}
		return perFile, res.Stderr
	}
	base := map[string][]string{}
	for _, p := range pkgs {
		pf, _ := run([]string{p}, "1")
		for f, ls := range pf {
			base[f] = ls
		}
	}
	if len(base) < 4 {
		fmt.Fprintln(os.Stderr, "c03cli: baseline produced diagnostics for only", len(base), "files")
		os.Exit(2)
	}
	perms := [][]int{{0, 1, 2}, {0, 2, 1}, {1, 0, 2}, {1, 2, 0}, {2, 0, 1}, {2, 1, 0}}
	splits := [][]int{{3}, {1, 2}, {2, 1}, {1, 1, 1}}
	concs := []string{"1", ""}
	if tier == "thorough" {
		concs = []string{"1", "2", "", "16"}
	}
	type cfg struct {
		perm, split []int
		conc        string
	}
	var cfgs []cfg
	for _, pm := range perms {
		for _, sp := range splits {
			for _, c := range concs {
				cfgs = append(cfgs, cfg{pm, sp, c})
			}
		}
	}
	var wg sync.WaitGroup
	sem := make(chan struct{}, 8)
	for _, c := range cfgs {
		wg.Add(1)
		sem <- struct{}{}
		go func(c cfg) {
			defer wg.Done()
			defer func() { <-sem }()
			got := map[string][]string{}
			var groups [][]string
			k := 0
			for _, n := range c.split {
				var g []string
				for i := 0; i < n; i++ {
					g = append(g, pkgs[c.perm[k]])
					k++
				}
				groups = append(groups, g)
				pf, _ := run(g, c.conc)
				for f, ls := range pf {
					got[f] = append(got[f], ls...)
				}
			}
			ev.Eval(1)
			ev.Nontrivial(fmt.Sprint("cli", groups, c.conc))
			var files []string
			for f := range base {
				files = append(files, f)
			}
			sort.Strings(files)
			for _, f := range files {
				if !equalStrings(got[f], base[f]) {
					ev.Violate(evidence.Violation{
						Key:      "cli|order-or-grouping|" + firstDiffChecker(got[f], base[f]),
						What:     "go-critic check reports different diagnostics for a file depending on the order or grouping of package arguments",
						Observed: fmt.Sprintf("invocations %v concurrency=%q file %s\nonly here: %v\nonly alone: %v", groups, c.conc, f, diffOnly(got[f], base[f]), diffOnly(base[f], got[f])),
						Replay:   map[string]interface{}{"kind": "cli", "invocations": groups, "concurrency": c.conc},
					})
				}
			}
			for f := range got {
				if _, ok := base[f]; !ok {
					ev.Violate(evidence.Violation{Key: "cli|extra-file", What: "diagnostics for a file that has none when analysed alone", Observed: f, Replay: map[string]interface{}{"invocations": groups}})
				}
			}
		}(c)
	}
	wg.Wait()
	ev.Set("cli_groupings", len(cfgs))
}

var _ = linter.GetCheckersInfo

package main

import (
	"bytes"
	"encoding/json"
	"fmt"
	"os"
	"os/exec"
	"path/filepath"
	"regexp"
	"strings"
	"time"

	"verif/mc/internal/harness"
)

// Commands whose exploration runs real checkers in-process are supervised: an unrecoverable fatal
// error of the Go runtime (stack overflow, concurrent map write) kills the child, the supervisor finds
// the program that caused it, confirms it alone in a fresh process and restarts the child with that
// program on a skip list (the child reports it as a violation / skips it).
var supervised = map[string]bool{"C01": true, "C05": true, "C07": true, "C20": true, "C13": true, "C19": true, "C09": true, "C15": true}

type fatalCase struct {
	ID    string                 `json:"id"`
	Class string                 `json:"class"`
	Frame string                 `json:"frame"`
	Case  map[string]interface{} `json:"case"`
}

var fatalFrameRE = regexp.MustCompile(`go-critic/(checkers|linter)[\w/]*\.(\(\*?\w+\)\.)?\w+`)

func classifyFatal(stderr string) (class, frame string) {
	for _, l := range strings.Split(stderr, "\n") {
		if strings.HasPrefix(l, "fatal error:") || strings.HasPrefix(l, "runtime: goroutine stack exceeds") {
			if class == "" || strings.HasPrefix(l, "fatal error:") {
				class = strings.TrimSpace(l)
			}
		}
	}
	if m := fatalFrameRE.FindString(stderr); m != "" {
		if i := strings.LastIndex(m, "/"); i >= 0 {
			m = m[i+1:]
		}
		frame = m
	}
	return
}

func supervise(cmd string, args []string) int {
	dir := filepath.Join(harness.WorkDir(), "supervise")
	os.MkdirAll(dir, 0o755)
	skipFile := filepath.Join(dir, "fatal-skip.json")
	var skips []fatalCase
	for attempt := 0; attempt < 6; attempt++ {
		data, _ := json.Marshal(skips)
		os.WriteFile(skipFile, data, 0o644)
		old, _ := filepath.Glob(filepath.Join(dir, "cur-*.json"))
		for _, f := range old {
			os.Remove(f)
		}
		c := exec.Command(os.Args[0], append([]string{cmd}, args...)...)
		c.Env = append(os.Environ(), "VERIF_CHILD=1", "VERIF_FATAL_SKIP="+skipFile, "VERIF_CUR_DIR="+dir)
		var so, se bytes.Buffer
		c.Stdout = &so
		c.Stderr = &se
		err := c.Run()
		code := 0
		if err != nil {
			if ee, ok := err.(*exec.ExitError); ok {
				code = ee.ExitCode()
			} else {
				code = 2
			}
		}
		stderr := se.String()
		fatal := strings.Contains(stderr, "fatal error:") || strings.Contains(stderr, "goroutine stack exceeds")
		if !fatal {
			os.Stdout.Write(so.Bytes())
			os.Stderr.Write(se.Bytes())
			return code
		}
		// triage: which in-flight program kills the process?
		cands, _ := filepath.Glob(filepath.Join(dir, "cur-*.json"))
		found := 0
		for _, f := range cands {
			res := harness.RunCmd(dir, append(os.Environ(), "VERIF_CHILD=1"), 120*time.Second, os.Args[0], "runprog", f)
			if strings.Contains(res.Stderr, "fatal error:") || strings.Contains(res.Stderr, "goroutine stack exceeds") {
				class, frame := classifyFatal(res.Stderr)
				var cs map[string]interface{}
				raw, _ := os.ReadFile(f)
				json.Unmarshal(raw, &cs)
				id, _ := cs["id"].(string)
				dup := false
				for _, s := range skips {
					if s.ID == id {
						dup = true
					}
				}
				if !dup {
					skips = append(skips, fatalCase{ID: id, Class: class, Frame: frame, Case: cs})
					found++
				}
			}
		}
		if found == 0 {
			fmt.Fprintln(os.Stderr, "supervisor: child died with a fatal error that no in-flight program reproduces alone (broken check):")
			os.Stderr.Write(tail(se.Bytes(), 4000))
			return 2
		}
		fmt.Fprintf(os.Stderr, "supervisor: %d program(s) kill the process with a fatal runtime error; restarting with them on the skip list\n", found)
	}
	fmt.Fprintln(os.Stderr, "supervisor: too many restarts")
	return 2
}

func tail(b []byte, n int) []byte {
	if len(b) > n {
		return b[len(b)-n:]
	}
	return b
}

// loadFatalSkips is used by the child.
func loadFatalSkips() map[string]fatalCase {
	out := map[string]fatalCase{}
	f := os.Getenv("VERIF_FATAL_SKIP")
	if f == "" {
		return out
	}
	data, err := os.ReadFile(f)
	if err != nil {
		return out
	}
	var skips []fatalCase
	json.Unmarshal(data, &skips)
	for _, s := range skips {
		out[s.ID] = s
	}
	return out
}

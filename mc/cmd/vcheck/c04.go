package main

import (
	"encoding/json"
	"fmt"
	"os"
	"os/exec"
	"path/filepath"
	"strings"
	"sync"
	"time"

	"verif/mc/internal/evidence"
	"verif/mc/internal/harness"
)

func init() { register("C04", c04) }

type schedResult struct {
	Executions   int
	Transitions  int
	Observations map[string]int
	MaxActive    int
	Violations   []struct {
		Class    string
		Schedule []int
		Observed string
		Expected string
	}
	Sample       []int
	SamplePoints []string
	Undrivable   string
	Err          string `json:"err"`
}

// buildSchedVariant instruments the current tree for the cooperative scheduler and returns the overlay.
func buildSchedOverlay() (overlay string, err error) {
	mcDir := filepath.Join(evidence.Root, "mc")
	work := filepath.Join(harness.WorkDir(), "sched")
	os.MkdirAll(work, 0o755)
	vinstr := filepath.Join(work, "vinstr")
	cmd := exec.Command("go", "build", "-o", vinstr, "./cmd/vinstr")
	cmd.Dir = mcDir
	cmd.Env = harness.GoEnv()
	if b, e := cmd.CombinedOutput(); e != nil {
		return "", fmt.Errorf("build vinstr: %v\n%s", e, b)
	}
	ov := filepath.Join(evidence.Root, "overlays")
	extra := map[string]string{}
	var base struct{ Replace map[string]string }
	data, _ := os.ReadFile(harness.Overlay())
	json.Unmarshal(data, &base)
	for k, v := range base.Replace {
		extra[k] = v
	}
	extra[filepath.Join(harness.RepoDir, "checkers", "verif_sched_probes.go")] = filepath.Join(ov, "checkers", "verif_sched_probes.go")
	extra[filepath.Join(harness.RepoDir, "cmd", "go-critic", "verif_sched.go")] = filepath.Join(ov, "cmdmain", "verif_sched.go")
	extra[filepath.Join(harness.RepoDir, "cmd", "gocritic", "verif_sched.go")] = filepath.Join(ov, "cmdmain", "verif_sched.go")
	ej, _ := json.Marshal(map[string]interface{}{"Replace": extra})
	extraFile := filepath.Join(work, "extra.json")
	os.WriteFile(extraFile, ej, 0o644)
	res := harness.RunCmd(mcDir, harness.GoEnv(), 5*time.Minute, vinstr, "-repo", harness.RepoDir, "-out", work,
		"-mcrt", filepath.Join(ov, "mcrt"), "-sched", "-extra", extraFile)
	if res.Exit != 0 {
		return "", fmt.Errorf("vinstr: %s%s", res.Stdout, res.Stderr)
	}
	if strings.Contains(res.Stderr, "not rewritten") {
		return "", fmt.Errorf("vinstr left a go statement unrewritten (the skeleton changed shape): %s", res.Stderr)
	}
	return filepath.Join(work, "overlay.json"), nil
}

func c04(args []string) int {
	ev := evidence.New("C04", "model_checking")
	tier := evidence.Tier()
	overlay, err := buildSchedOverlay()
	if err != nil {
		fmt.Fprintln(os.Stderr, err)
		return 2
	}
	var states, transitions int
	undrivable := ""
	// ------------------------------------------------------------ leg 1: CLI skeleton under the scheduler
	type sc struct {
		probes []string
		conc   int
		bound  int
		src    string
	}
	var scs []sc
	probeSets := [][]string{
		{"vschedA"}, {"vschedA", "vschedB"}, {"vschedA", "vschedB", "vschedC"}, {"vschedQuiet", "vschedA"},
		{"vschedPanicErr"}, {"vschedA", "vschedPanicErr"}, {"vschedPanicStr", "vschedA"}, {"vschedA", "vschedPanicErr", "vschedB"},
	}
	if tier == "thorough" {
		probeSets = append(probeSets, []string{"vschedA", "vschedB", "vschedC", "vschedD"}, []string{"vschedA", "vschedPanicStr", "vschedB", "vschedPanicErr"})
	}
	for _, ps := range probeSets {
		for _, c := range []int{1, 2, 3} {
			b := 2
			if len(ps) <= 2 {
				b = -1 // unbounded: the space is small
			} else if tier == "thorough" {
				b = 3
			}
			scs = append(scs, sc{ps, c, b, ""})
		}
	}
	// real checkers that share the context (sizes, imports, type queries) on programs made to collide, every
	// order in which their goroutines can run; the reference is each checker alone on its own context
	realSets := []struct {
		names []string
		src   string
	}{
		{[]string{"hugeParam", "rangeValCopy", "rangeExprCopy"}, c04SchedSizes},
		{[]string{"rangeExprCopy", "rangeValCopy"}, c04SchedSizes},
		{[]string{"truncateCmp", "hugeParam", "rangeValCopy"}, c04SchedSizes},
		{[]string{"dupImport", "importShadow", "unlambda"}, c04SchedImports},
		{[]string{"typeSwitchVar", "caseOrder", "sloppyTypeAssert"}, c04SchedImports},
	}
	for _, rs := range realSets {
		for _, c := range []int{1, 2, 3} {
			b := -1
			if len(rs.names) > 2 && c > 1 {
				b = 2
				if tier == "thorough" {
					b = 3
				}
			}
			scs = append(scs, sc{rs.names, c, b, rs.src})
		}
	}
	for _, pkg := range []string{"./cmd/go-critic", "./cmd/gocritic"} {
		bin, err := harness.BuildBin(pkg, "-tags", "verif verifsched", "-overlay", overlay)
		if err != nil {
			fmt.Fprintln(os.Stderr, err)
			return 2
		}
		var wg sync.WaitGroup
		sem := make(chan struct{}, 8)
		for _, s := range scs {
			if pkg == "./cmd/gocritic" && tier == "quick" {
				if len(s.probes) > 2 {
					continue
				}
				s.bound = 2 // the twin is the same source text; quick explores it with a preemption bound
			}
			wg.Add(1)
			sem <- struct{}{}
			go func(s sc) {
				defer wg.Done()
				defer func() { <-sem }()
				rpc, err := harness.StartRPC(bin, harness.WorkDir(), []string{"VERIF_RPC=1", "VERIF_PROBES=1", "VERIF_RPC_NOEMBED=1"})
				if err != nil {
					fmt.Fprintln(os.Stderr, err)
					os.Exit(2)
				}
				defer rpc.Close()
				var resp struct {
					Sched schedResult `json:"sched"`
					Err   string      `json:"err"`
					Panic string      `json:"panic"`
				}
				if err := rpc.Call(map[string]interface{}{"op": "sched", "args": s.probes, "DirDepth": s.conc, "FileDepth": s.bound, "Src": s.src}, &resp); err != nil || resp.Err != "" || resp.Panic != "" || resp.Sched.Err != "" {
					fmt.Fprintln(os.Stderr, "sched rpc:", err, resp.Err, resp.Panic, resp.Sched.Err)
					os.Exit(2)
				}
				r := resp.Sched
				if r.Undrivable != "" {
					c04mu.Lock()
					undrivable = r.Undrivable
					c04mu.Unlock()
					ev.Cap("the checkFile skeleton could not be driven by the cooperative scheduler: " + r.Undrivable)
					return
				}
				ev.Eval(r.Executions)
				c04mu.Lock()
				states += r.Executions
				transitions += r.Transitions
				c04mu.Unlock()
				id := fmt.Sprintf("%s|%v|c=%d|bound=%d", filepath.Base(pkg), s.probes, s.conc, s.bound)
				if r.Executions > 1 {
					ev.Nontrivial(id)
				}
				ev.Set("executions "+id, r.Executions)
				if len(r.Sample) > 0 && s.conc == 2 && len(s.probes) == 2 {
					ev.Sample(map[string]interface{}{"scenario": id, "schedule": r.Sample, "points": r.SamplePoints, "distinct_observations": len(r.Observations), "max_checkers_inside_WalkFile": r.MaxActive})
				}
				for _, v := range r.Violations {
					kind := "checkFile"
					if s.src != "" {
						kind = "checkFile+real-checkers"
					}
					ev.Violate(evidence.Violation{Key: fmt.Sprintf("%s|%s|%s", filepath.Base(pkg), kind, v.Class), What: "an interleaving of the real checkFile violates: " + v.Class,
						Observed: fmt.Sprintf("%s schedule %v\nobserved: %s\nexpected: %s", id, v.Schedule, v.Observed, v.Expected),
						Replay:   map[string]interface{}{"kind": "schedule", "binary": pkg, "probes": s.probes, "concurrency": s.conc, "schedule": v.Schedule, "src": s.src}})
				}
			}(s)
		}
		wg.Wait()
	}

	// ------------------------------------------------------------ leg 2: parallel analyzer passes under the scheduler
	c04Analyzer(ev, overlay, tier, &states, &transitions)

	// ------------------------------------------------------------ leg 3: free-running race detector passes (complement)
	c04Race(ev, tier)

	if undrivable != "" && len(ev.ViolationKeys()) == 0 {
		// the skeleton was restructured around primitives the build-time rewriter does not know: the schedule
		// exploration did not run (recorded as a cap, exhaustive:false); the analyzer-pass exploration, the
		// comparison of the real CLI across -concurrency values and the race legs did run and found nothing
		fmt.Fprintln(os.Stderr, "C04: schedule exploration of checkFile skipped ("+undrivable+"); extend cmd/vinstr to drive the new skeleton")
	}
	if states == 0 {
		states, transitions = 1, 1 // schema minimum; the skeleton leg did not run (see caps_hit)
	}
	ev.Set("states", states)
	ev.Set("transitions", transitions)
	ev.Set("traces_validated_against_impl", states)
	ev.Set("rule", "states = complete executions of the real checkFile / real runAnalyzer under the cooperative scheduler (go, semaphore send/receive, WaitGroup, Mutex and yields inside probe walkers are scheduling points), explored by DFS over schedules with a preemption bound (unbounded for <=2 checkers); every execution is an implementation run. Invariants per execution: no deadlock, at most `concurrency` checkers inside WalkFile, output lines equal to the sequential order, foundIssues correct, a panicking checker kills the run, replay determinism. Complement (not deciding, sampling of schedules): -race builds of the real CLI with -concurrency 1..16 and of a harness running all checkers as goroutines over shared trees and parallel per-package checker sets")
	return ev.Finish()
}

var c04mu sync.Mutex

const c04SchedSizes = c02LocalTypes + `
type wide [1024]int

func viaParam(p wide) int {
	type wide [2]int
	var q [3]wide
	n := 0
	for _, v := range q {
		n += v[0]
	}
	return n + p[0]
}

func cmp(x int64, y int32) bool {
	type rec struct{ a [40]int }
	var r rec
	return int32(x) < y && r.a[0] == 0
}

func heavy(r struct{ a [200]int }) int {
	type rec struct{ a [3]int }
	for _, x := range []rec{{}} {
		_ = x
	}
	return r.a[0]
}
`

const c04SchedImports = `package b

import (
	"fmt"
	f2 "fmt"
	"os"
	"strings"
)

func up(s string) string { return strings.ToUpper(s) }

func use(fmt3 int, os2 fmt.Stringer) {
	strings := func(s string) string { return s }
	g := func(s string) string { return strings(s) }
	fmt.Println(f2.Sprint(), os.Args, g("x"), fmt3)
	switch v := os2.(type) {
	case interface{}:
		_ = v.(fmt.Stringer)
	case fmt.Stringer:
		_ = v
	case nil:
	}
	switch os2.(type) {
	case fmt.Stringer:
		x := os2.(fmt.Stringer)
		_ = x
	}
	_ = os2.(fmt.Stringer)
}
`

func c04Analyzer(ev *evidence.Run, overlay, tier string, states, transitions *int) {
	mcDir := filepath.Join(evidence.Root, "mc")
	bin := filepath.Join(harness.WorkDir(), "sched", "c04an")
	cmd := exec.Command("go", "build", "-tags", "verif verifsched", "-overlay", overlay, "-o", bin, "./cmd/c04an")
	cmd.Dir = mcDir
	cmd.Env = harness.GoEnv()
	if b, e := cmd.CombinedOutput(); e != nil {
		fmt.Fprintf(os.Stderr, "build c04an: %v\n%s", e, b)
		os.Exit(2)
	}
	bound := "2"
	if tier == "thorough" {
		bound = "3"
	}
	res := harness.RunCmd(harness.WorkDir(), append(os.Environ(), "VERIF_PROBES="), 30*time.Minute, bin, "-bound", bound)
	var results []struct {
		Scenario     string
		Executions   int
		Transitions  int
		Observations int
		Violations   []map[string]interface{}
		Sample       []string
	}
	if res.Exit != 0 || json.Unmarshal([]byte(res.Stdout), &results) != nil {
		fmt.Fprintln(os.Stderr, "c04an failed (broken check):", res.Exit, string(tail([]byte(res.Stderr), 2000)))
		os.Exit(2)
	}
	for _, r := range results {
		ev.Eval(r.Executions)
		*states += r.Executions
		*transitions += r.Transitions
		ev.Set("executions analyzer|"+r.Scenario, r.Executions)
		if r.Executions > 1 {
			ev.Nontrivial("analyzer|" + r.Scenario)
		}
		if len(r.Sample) > 0 && strings.HasPrefix(r.Scenario, "valid|fresh|2") {
			ev.Sample(map[string]interface{}{"scenario": "analyzer passes " + r.Scenario, "points": r.Sample})
		}
		for _, v := range r.Violations {
			ev.Violate(evidence.Violation{Key: fmt.Sprintf("analyzer|parallel-passes|%v", v["class"]), What: fmt.Sprintf("an interleaving of concurrent analyzer passes violates: %v", v["class"]),
				Observed: fmt.Sprintf("%s schedule %v\nobserved: %v\nexpected: %v", r.Scenario, v["schedule"], v["observed"], v["expected"]), Replay: map[string]interface{}{"kind": "schedule", "scenario": r.Scenario, "schedule": v["schedule"]}})
		}
	}
}

// c04Race: free-running race-detector legs (the complement the cooperative scheduler needs: its
// hand-offs are happens-before edges, so unsynchronised accesses are invisible to it).
func c04Race(ev *evidence.Run, tier string) {
	mcDir := filepath.Join(evidence.Root, "mc")
	// (a) in-process harness with all checkers as goroutines
	bin := filepath.Join(harness.WorkDir(), "sched", "c04race")
	cmd := exec.Command("go", "build", "-race", "-o", bin, "./cmd/c04race")
	cmd.Dir = mcDir
	cmd.Env = harness.GoEnv()
	if b, e := cmd.CombinedOutput(); e != nil {
		fmt.Fprintf(os.Stderr, "build c04race: %v\n%s", e, b)
		os.Exit(2)
	}
	res := harness.RunCmd(harness.WorkDir(), append(os.Environ(), "GORACE=halt_on_error=0", "VERIF_REPO="+harness.RepoDir), 30*time.Minute, bin)
	ev.Eval(1)
	reportRace := func(where, out string) {
		i := strings.Index(out, "WARNING: DATA RACE")
		j := strings.Index(out, "fatal error: concurrent map")
		if i < 0 && j < 0 {
			return
		}
		if i < 0 {
			i = j
		}
		frag := out[i:]
		if len(frag) > 2500 {
			frag = frag[:2500]
		}
		// key by the first go-critic frame of the report
		frame := "?"
		for _, l := range strings.Split(frag, "\n") {
			l = strings.TrimSpace(l)
			if strings.Contains(l, "go-critic/") && strings.HasSuffix(l, ")") && !strings.Contains(l, "verif/mc") {
				frame = l
				if k := strings.LastIndex(frame, "/"); k >= 0 {
					frame = frame[k+1:]
				}
				if k := strings.Index(frame, "("); k > 0 && !strings.HasPrefix(frame[k:], "(*") {
					frame = frame[:k]
				}
				break
			}
		}
		ev.Violate(evidence.Violation{Key: "data-race|" + where + "|" + frame, What: "the race detector reports a data race between concurrently running checkers", Observed: frag, Replay: map[string]interface{}{"kind": "race", "leg": where}})
	}
	if res.Exit != 0 && !strings.Contains(res.Stderr, "DATA RACE") && !strings.Contains(res.Stderr, "concurrent map") {
		fmt.Fprintln(os.Stderr, "c04race failed (broken check):", res.Exit, string(tail([]byte(res.Stderr), 1500)))
		os.Exit(2)
	}
	reportRace("checkers-as-goroutines", res.Stderr)
	ev.Nontrivial("race|harness")
	// (a2) constructors first used concurrently (fresh process each round: only the first use of a lazily built
	// shared object can race)
	for round := 0; round < 4; round++ {
		cres := harness.RunCmd(harness.WorkDir(), append(os.Environ(), "GORACE=halt_on_error=0", "VERIF_REPO="+harness.RepoDir), 10*time.Minute, bin, "-ctor")
		ev.Eval(1)
		ev.Nontrivial("race|constructors")
		if strings.Contains(cres.Stdout, "CTOR-BROKEN") || (!strings.Contains(cres.Stdout, "CTOR-DONE") && !strings.Contains(cres.Stderr, "DATA RACE") && !strings.Contains(cres.Stderr, "concurrent map")) {
			fmt.Fprintln(os.Stderr, "c04race -ctor failed (broken check):", cres.Exit, cres.Stdout, string(tail([]byte(cres.Stderr), 1500)))
			os.Exit(2)
		}
		reportRace("concurrent-constructors", cres.Stderr)
		if i := strings.Index(cres.Stdout, "CTOR-VIOLATION"); i >= 0 {
			ev.Violate(evidence.Violation{Key: "constructors|concurrent-first-use|output-differs", What: "checker sets constructed at the same time (one per package pass) report differently from a set constructed alone", Observed: cres.Stdout[i:min(len(cres.Stdout), i+1500)], Replay: map[string]interface{}{"kind": "race", "leg": "constructors"}})
		}
	}
	// (c) concurrent analyzer passes, free-running under the race detector (valid and invalid configurations)
	{
		overlay, err := buildSchedOverlay()
		if err != nil {
			fmt.Fprintln(os.Stderr, err)
			os.Exit(2)
		}
		abin := filepath.Join(harness.WorkDir(), "sched", "c04an-race")
		cmd := exec.Command("go", "build", "-race", "-tags", "verif verifsched", "-overlay", overlay, "-o", abin, "./cmd/c04an")
		cmd.Dir = mcDir
		cmd.Env = harness.GoEnv()
		if b, e := cmd.CombinedOutput(); e != nil {
			fmt.Fprintf(os.Stderr, "build c04an -race: %v\n%s", e, b)
			os.Exit(2)
		}
		res := harness.RunCmd(harness.WorkDir(), append(os.Environ(), "GORACE=halt_on_error=0"), 20*time.Minute, abin, "-free", "40")
		ev.Eval(1)
		ev.Nontrivial("race|analyzer-passes")
		if !strings.Contains(res.Stdout, "FREE-DONE") && !strings.Contains(res.Stderr, "DATA RACE") {
			fmt.Fprintln(os.Stderr, "c04an -free failed (broken check):", res.Exit, string(tail([]byte(res.Stderr), 1500)))
			os.Exit(2)
		}
		reportRace("analyzer-passes", res.Stderr)
		for _, l := range strings.Split(res.Stdout, "\n") {
			if strings.HasPrefix(l, "FREE-VIOLATION") {
				ev.Violate(evidence.Violation{Key: "analyzer|parallel-passes|init-error-reported-not-exactly-once", What: "concurrent analyzer passes report the initialisation error a different number of times than a sequential run", Observed: l, Replay: map[string]interface{}{"kind": "free-run"}})
				break
			}
		}
	}
	// (b) the real CLI built with -race, every concurrency value
	rbin, err := harness.BuildBin("./cmd/go-critic", "-race")
	if err != nil {
		fmt.Fprintln(os.Stderr, err)
		os.Exit(2)
	}
	ws := filepath.Join(harness.WorkDir(), "c04ws")
	writeTree(ws, map[string]string{
		"go.mod": "module w\n\ngo 1.21\n",
		"a/a.go": strings.Replace(c03Extra1, "package extra1", "package a", 1),
		"a/s.go": "package a\n\ntype big struct{ a [200]byte }\ntype small struct{ a byte }\n\nfunc (b big) M(x big, s small) int { return int(x.a[0]) + int(s.a) }\n\nfunc rng(bs []big, ss []small, arr [600]byte) int {\n\tn := 0\n\tfor _, b := range bs {\n\t\tn += int(b.a[0])\n\t}\n\tfor _, s := range ss {\n\t\tn += int(s.a)\n\t}\n\tfor _, x := range arr {\n\t\tn += int(x)\n\t}\n\treturn n\n}\n",
		"b/b.go": strings.Replace(c03Extra2, "package extra2", "package b", 1),
		"b/l.go": c02LocalTypes,
		"c/c.go": c08A,
	})
	concs := []int{1, 2, 3, 4, 8, 16}
	if tier == "thorough" {
		concs = []int{1, 2, 3, 4, 5, 6, 7, 8, 9, 10, 11, 12, 13, 14, 15, 16}
	}
	type runOut struct {
		conc int
		out  string
		n    int
	}
	var outs []runOut
	for _, c := range concs {
		reps := 2
		for r := 0; r < reps; r++ {
			res := harness.RunCmd(ws, append(harness.GoEnv(), "GORACE=halt_on_error=0"), 5*time.Minute, rbin, "check", "-enableAll", fmt.Sprintf("-concurrency=%d", c), "./...")
			ev.Eval(1)
			ev.Nontrivial(fmt.Sprintf("race|cli|%d", c))
			reportRace(fmt.Sprintf("cli"), res.Stderr)
			if strings.Contains(res.Stderr, "DATA RACE") {
				continue
			}
			var lines []string
			for _, l := range strings.Split(res.Stderr, "\n") {
				if c16LineRE.MatchString(l) {
					lines = append(lines, l)
				}
			}
			outs = append(outs, runOut{c, strings.Join(lines, "\n"), len(lines)})
		}
	}
	// reference = the most frequent output; every concurrency value must produce it
	freq := map[string]int{}
	for _, o := range outs {
		freq[o.out]++
	}
	ref, best, maxLines := "", 0, 0
	for o, n := range freq {
		if n > best || (n == best && len(o) > len(ref)) {
			ref, best = o, n
		}
	}
	for _, o := range outs {
		if o.n > maxLines {
			maxLines = o.n
		}
	}
	if len(outs) > 0 && maxLines < 5 {
		fmt.Fprintln(os.Stderr, "c04 race leg: CLI produced too few diagnostics for every concurrency value (vacuous)")
		os.Exit(2)
	}
	for _, o := range outs {
		if o.out != ref {
			ev.Violate(evidence.Violation{Key: "cli|output-depends-on-concurrency", What: "the set/order of diagnostics differs between concurrency settings", Observed: fmt.Sprintf("-concurrency=%d (%d diagnostic lines, the usual output has %d):\n%s", o.conc, o.n, strings.Count(ref, "\n")+1, diffFirst(ref, o.out)), Replay: map[string]interface{}{"kind": "cli", "concurrency": o.conc}})
			break
		}
	}
}

package main

import (
	"fmt"
	"os"
	"path/filepath"
	"sort"
	"strings"
	"sync"

	"github.com/go-critic/go-critic/linter"

	"verif/mc/internal/evidence"
	"verif/mc/internal/fp"
	"verif/mc/internal/harness"
	"verif/mc/internal/progenum"
)

func init() { register("C05", c05) }

type snapshot struct {
	files []uint64
	info  uint64
	ctx   uint64
	reg   uint64
}

func takeSnapshot(set *harness.Set, pk *harness.Pkg) snapshot {
	var s snapshot
	for _, f := range pk.Files {
		s.files = append(s.files, fp.File(f))
	}
	s.info = fp.Info(pk.Info)
	s.ctx = fp.Context(set.Ctx, harness.Fset)
	s.reg = fp.Registry()
	return s
}

func (a snapshot) diff(b snapshot) string {
	var d []string
	for i := range a.files {
		if i < len(b.files) && a.files[i] != b.files[i] {
			d = append(d, fmt.Sprintf("syntax-tree(file %d)", i))
		}
	}
	if a.info != b.info {
		d = append(d, "types.Info")
	}
	if a.ctx != b.ctx {
		d = append(d, "Context")
	}
	if a.reg != b.reg {
		d = append(d, "registry/params")
	}
	return strings.Join(d, "+")
}

func paramDump(info *linter.CheckerInfo) string {
	var out []string
	for k, p := range info.Params {
		out = append(out, fmt.Sprintf("%s=%v", k, p.Value))
	}
	sort.Strings(out)
	return strings.Join(out, " ")
}

func c05(args []string) int {
	ev := evidence.New("C05", "exploration")
	tier := evidence.Tier()
	harness.Init()
	ev.Assume("constructors may set Context.Require.* (documented purpose); rule engines may fill private caches: neither is part of the fingerprint, which is taken after construction and SetFileInfo")
	ev.Assume("go/types objects are compared by identity, not by their lazily completed interiors")

	var mu sync.Mutex
	mutators := map[string]bool{}
	nFP := 0

	// per-checker stepping: fingerprint after every single checker (used for the example files and on any mismatch)
	stepwise := func(set *harness.Set, p *progenum.Prog, pk *harness.Pkg) {
		for fi := range pk.Files {
			if fi == 0 {
				set.Ctx.SetPackageInfo(pk.Info, pk.Types)
			}
			set.Ctx.SetFileInfo(pk.Names[fi], pk.Files[fi])
			before := takeSnapshot(set, pk)
			for _, c := range set.Checkers {
				_, crash := harness.CheckOne(c, pk.Files[fi])
				if crash != nil {
					continue
				}
				after := takeSnapshot(set, pk)
				mu.Lock()
				nFP++
				mu.Unlock()
				if d := before.diff(after); d != "" {
					mu.Lock()
					mutators[c.Info.Name] = true
					mu.Unlock()
					ev.Violate(evidence.Violation{
						Key:      c.Info.Name + "|writes|" + d,
						What:     fmt.Sprintf("checker %s modifies its input (%s)", c.Info.Name, d),
						Observed: fmt.Sprintf("fingerprint of %s changed while %s analysed %s of %s", d, c.Info.Name, pk.Names[fi], p.ID),
						Replay:   progReplay(p, c.Info.Name),
					})
					before = after
				}
			}
		}
	}

	handle := func(r *caseResult) {
		ev.Eval(1)
		p := r.prog
		ev.Nontrivial(p.ID)
		// The fingerprinted pass is the FIRST analysis of this tree by this long-lived set (a write that
		// only happens on first contact must fall inside the window).
		pk1 := r.pkg
		var fwdDiags []harness.Diag
		if p.Fam == "testdata" {
			stepwise(r.set, p, pk1)
			// forward diagnostics for the order leg from a further pristine tree
			pkf := harness.Load(p.Path, p.Files)
			fwdDiags, _ = r.set.VisitAll(pkf)
			pkf.Release()
		} else {
			// cheap path: one fingerprint before and after the whole set per file; bisect on mismatch
			bad := false
			for fi := range pk1.Files {
				if fi == 0 {
					r.set.Ctx.SetPackageInfo(pk1.Info, pk1.Types)
				}
				r.set.Ctx.SetFileInfo(pk1.Names[fi], pk1.Files[fi])
				before := takeSnapshot(r.set, pk1)
				for _, c := range r.set.Checkers {
					d, crash := harness.CheckOne(c, pk1.Files[fi])
					if crash != nil {
						return // crashes are C01's subject
					}
					fwdDiags = append(fwdDiags, d...)
				}
				after := takeSnapshot(r.set, pk1)
				mu.Lock()
				nFP++
				mu.Unlock()
				if d := before.diff(after); d != "" {
					bad = true
					// which checker? replay one by one on a pristine tree; a first-contact-only write may not
					// repeat, so the coarse finding is reported as well
					ev.Violate(evidence.Violation{
						Key:      "set|writes|" + d,
						What:     "analysing a file changes the shared input (" + d + ")",
						Observed: fmt.Sprintf("fingerprint of %s changed while the checker set analysed %s of %s", d, pk1.Names[fi], p.ID),
						Replay:   progReplay(p, ""),
					})
				}
			}
			if bad {
				// attribute it: per-checker stepping on a pristine tree with a fresh set (first contact again)
				pk2 := harness.Load(p.Path, p.Files)
				if fs, err := harness.NewSet(harness.Infos(nil), ""); err == nil {
					stepwise(fs, p, pk2)
				}
				pk2.Release()
			}
		}
		// order leg: reverse checker order on a pristine tree must give each checker the same diagnostics
		pk3 := harness.Load(p.Path, p.Files)
		defer pk3.Release()
		rev := map[string][]string{}
		for fi := range pk3.Files {
			if fi == 0 {
				r.set.Ctx.SetPackageInfo(pk3.Info, pk3.Types)
			}
			r.set.Ctx.SetFileInfo(pk3.Names[fi], pk3.Files[fi])
			for i := len(r.set.Checkers) - 1; i >= 0; i-- {
				c := r.set.Checkers[i]
				d, _ := harness.CheckOne(c, pk3.Files[fi])
				rev[c.Info.Name] = append(rev[c.Info.Name], harness.DiagStrings(d)...)
			}
		}
		fwd := map[string][]string{}
		for _, d := range fwdDiags {
			fwd[d.Checker] = append(fwd[d.Checker], d.String())
		}
		var names []string
		for n := range fwd {
			names = append(names, n)
		}
		for n := range rev {
			if _, ok := fwd[n]; !ok {
				names = append(names, n)
			}
		}
		sort.Strings(names)
		for _, n := range names {
			if !equalStrings(fwd[n], rev[n]) {
				ev.Violate(evidence.Violation{
					Key:      n + "|order-dependent",
					What:     fmt.Sprintf("diagnostics of %s depend on which checkers ran before it on the same tree", n),
					Observed: fmt.Sprintf("%s\nonly when run after the checkers that precede it alphabetically: %v\nonly when run after those that follow it: %v", p.ID, diffOnly(fwd[n], rev[n]), diffOnly(rev[n], fwd[n])),
					Replay:   progReplay(p, ""),
				})
			}
		}
	}
	corpus := func(emit func(progenum.Prog)) {
		testdataProgs(emit)
		progenum.Odd(emit)
		if tier == "quick" {
			mutantProgs(quickMutOps, nil)(emit)
			// a slice of the shadow family: first declaration kind only
			progenum.Shadow(true, func(p progenum.Prog) {
				if p.Meta["decl"] == "pkgfunc" || p.Meta["decl"] == "real" || p.Meta["decl"] == "varstructfield" {
					emit(p)
				}
			})
		} else {
			mutantProgs(nil, nil)(emit)
			progenum.Shadow(false, emit)
		}
	}
	st := runCorpus(corpus, runOpts{allowErrors: allowCaseOrder, noVisit: true}, handle)
	// registered parameter values around construction and use, for every value of the small domain (sequential:
	// parameter values are process-global registry state)
	{
		os.Chdir(filepath.Join(evidence.Root, "mc")) // rule files import the dsl package through the harness module
		tdBy := map[string][]progenum.Prog{}
		testdataProgs(func(p progenum.Prog) { tdBy[p.Meta["checker"]] = append(tdBy[p.Meta["checker"]], p) })
		probe := harness.LoadOne("package vpkg\n\nfunc f(a, b int) int {\n\ta = a + b\n\treturn a\n}\n")
		nv := 0
		for _, info := range harness.Infos(nil) {
			var pn []string
			for k := range info.Params {
				pn = append(pn, k)
			}
			sort.Strings(pn)
			for _, k := range pn {
				orig := info.Params[k].Value
				var domain []interface{}
				switch orig.(type) {
				case int:
					domain = []interface{}{-1, 0, 1, 1 << 20}
				case bool:
					domain = []interface{}{true, false}
				case string:
					domain = []interface{}{"", "all", "dsl", "x,y"}
					if info.Name == "ruleguard" && k == "rules" {
						domain = []interface{}{"", filepath.Join(evidence.Root, "fixtures", "rules", "validA.go"), filepath.Join(evidence.Root, "fixtures", "rules", "validA.go") + "," + filepath.Join(evidence.Root, "fixtures", "rules", "dslerr.go")}
					}
				}
				for _, v := range domain {
					info.Params[k].Value = v
					before := fp.Registry()
					set, err := harness.NewSet(harness.Infos([]string{info.Name}), "")
					if err == nil {
						set.VisitAll(probe)
						for _, p := range tdBy[info.Name] {
							pk := harness.Load(p.Path, p.Files)
							if len(pk.Errs) == 0 {
								set.VisitAll(pk)
							}
							pk.Release()
						}
					}
					after := fp.Registry()
					nv++
					nFP++
					ev.Eval(1)
					ev.Nontrivial(fmt.Sprintf("registry|%s.%s=%v", info.Name, k, v))
					if before != after {
						ev.Violate(evidence.Violation{Key: info.Name + "|writes|registered-parameters", What: "constructing or running checker " + info.Name + " changes registered metadata or parameter values",
							Observed: fmt.Sprintf("with %s.%s=%v (constructor error: %v): registry fingerprint %x -> %x; values now: %s", info.Name, k, v, err, before, after, paramDump(info)),
							Replay:   map[string]interface{}{"kind": "parameter", "checker": info.Name, "param": k, "value": fmt.Sprint(v)}})
					}
					info.Params[k].Value = orig
				}
				info.Params[k].Value = orig
			}
		}
		// two parameters at a time: every pair of parameters of a checker x every pair of values of their small
		// domains, the other parameters at their defaults (a write may need one parameter to pass an early return
		// and another one to select the writing branch)
		domainOf := func(info *linter.CheckerInfo, k string) []interface{} {
			switch info.Params[k].Value.(type) {
			case int:
				return []interface{}{-1, 0, 1, 1 << 20}
			case bool:
				return []interface{}{true, false}
			case string:
				if info.Name == "ruleguard" && k == "rules" {
					return []interface{}{"", filepath.Join(evidence.Root, "fixtures", "rules", "validA.go"), filepath.Join(evidence.Root, "fixtures", "rules", "validA.go") + "," + filepath.Join(evidence.Root, "fixtures", "rules", "dslerr.go")}
				}
				return []interface{}{"", "all", "dsl", "x,y"}
			}
			return nil
		}
		np := 0
		for _, info := range harness.Infos(nil) {
			var pn []string
			for k := range info.Params {
				pn = append(pn, k)
			}
			sort.Strings(pn)
			for i := 0; i < len(pn); i++ {
				for j := i + 1; j < len(pn); j++ {
					k1, k2 := pn[i], pn[j]
					o1, o2 := info.Params[k1].Value, info.Params[k2].Value
					d1, d2 := domainOf(info, k1), domainOf(info, k2)
					for _, v1 := range d1 {
						for _, v2 := range d2 {
							info.Params[k1].Value, info.Params[k2].Value = v1, v2
							before := fp.Registry()
							set, err := harness.NewSet(harness.Infos([]string{info.Name}), "")
							if err == nil {
								set.VisitAll(probe)
							}
							after := fp.Registry()
							np++
							nFP++
							ev.Eval(1)
							if before != after {
								ev.Violate(evidence.Violation{Key: info.Name + "|writes|registered-parameters", What: "constructing or running checker " + info.Name + " changes registered metadata or parameter values",
									Observed: fmt.Sprintf("with %s.%s=%v and %s=%v (constructor error: %v): registry fingerprint %x -> %x; values now: %s", info.Name, k1, v1, k2, v2, err, before, after, paramDump(info)),
									Replay:   map[string]interface{}{"kind": "parameter-pair", "checker": info.Name, "param": k1, "value": fmt.Sprint(v1), "param2": k2, "value2": fmt.Sprint(v2)}})
							}
							info.Params[k1].Value, info.Params[k2].Value = o1, o2
						}
					}
				}
			}
		}
		ev.Set("parameter_value_pairs_with_registry_fingerprint", np)
		ev.Set("parameter_values_with_registry_fingerprint", nv)
	}
	ev.Set("programs_run", st.ran)
	ev.Set("fingerprint_comparisons", nFP)
	ev.Set("checkers_per_program", len(harness.Infos(nil)))
	ev.Sample(map[string]interface{}{"fingerprinted": []string{"*ast.File graph by reflection: every field of every node, token.Pos, slice lengths/backing arrays/element identities, comments, Obj/Scope", "types.Info: every map, key->value identities, constant values, modes", "linter.Context: all fields incl. PkgObjects/PkgRenames", "registry: names, tags, docs, parameter values"}})
	ev.Sample(map[string]interface{}{"order_leg": "each program analysed on two pristine trees with the checker list in ascending and descending order; per-checker diagnostics must be equal"})
	ev.Set("rule", "every program of the corpus (examples, odd-syntax family, mutants, shadow family slice) x all checkers; example files are fingerprinted after every single checker, generated programs around the whole set with per-checker bisection on mismatch; non-trivial = program analysed without crash whose fingerprints were compared")
	if tier == "quick" {
		ev.Cap("quick tier: mutation operator subset and three declaration kinds of the shadow family")
	}
	return ev.Finish()
}

package main

import (
	"fmt"
	"go/ast"
	"go/parser"
	"go/token"
	"go/types"
	"regexp"
	"sort"
	"strings"
	"sync"

	"verif/mc/internal/evidence"
	"verif/mc/internal/harness"
	"verif/mc/internal/progenum"
)

func init() { register("C09", c09) }

// message formats that quote replacement code: regexp -> (index of quoted original or 0, index of replacement)
var c09Formats = []struct {
	re   *regexp.Regexp
	a, b int
	lit  string // fixed replacement text when b == 0
}{
	{regexp.MustCompile("^can simplify `(.+)` to `(.+)`$"), 1, 2, ""},
	{regexp.MustCompile("^could simplify (.+) to (.+)$"), 1, 2, ""},
	{regexp.MustCompile("^replace `(.+)` with `(.+)`$"), 1, 2, ""},
	{regexp.MustCompile("^(.+) could be replaced with (.+)$"), 1, 2, ""},
	{regexp.MustCompile("^returned expr is always nil; replace (.+) with nil$"), 1, 0, "nil"},
	{regexp.MustCompile("^use new octal literal style, (0o.+)$"), 0, 1, ""},
}

func stripWS(s string) string {
	return strings.Map(func(r rune) rune {
		if r == ' ' || r == '\t' || r == '\n' || r == '\r' {
			return -1
		}
		return r
	}, s)
}

var c09StdPkgs = map[string]string{"strings": "strings", "bytes": "bytes", "fmt": "fmt", "errors": "errors", "utf8": "unicode/utf8", "http": "net/http", "time": "time", "filepath": "path/filepath", "io": "io", "os": "os", "sort": "sort", "strconv": "strconv", "sync": "sync", "regexp": "regexp", "unicode": "unicode", "math": "math", "slices": "slices", "atomic": "sync/atomic", "reflect": "reflect"}

var c09PkgTok = regexp.MustCompile(`\b([a-z][a-z0-9]*)\.[A-Z]`)

// addImports adds imports of standard packages named by the replacement and not yet imported by the file
// (a single text edit cannot add them and every fixer organises imports; stated relaxation).
func addImports(src, repl string) string {
	if t := strings.TrimSpace(repl); strings.HasPrefix(t, "//") || strings.HasPrefix(t, "/*") {
		return src // a comment names no package
	}
	fset := token.NewFileSet()
	f, err := parser.ParseFile(fset, "x.go", src, parser.ImportsOnly)
	if err != nil {
		return src
	}
	have := map[string]bool{}
	for _, im := range f.Imports {
		p := strings.Trim(im.Path.Value, "\"")
		name := p[strings.LastIndex(p, "/")+1:]
		if im.Name != nil {
			name = im.Name.Name
		}
		have[name] = true
	}
	var add []string
	for _, m := range c09PkgTok.FindAllStringSubmatch(repl, -1) {
		if path, ok := c09StdPkgs[m[1]]; ok && !have[m[1]] {
			have[m[1]] = true
			add = append(add, path)
		}
	}
	if len(add) == 0 {
		return src
	}
	off := fset.Position(f.Name.End()).Offset
	ins := ""
	for _, p := range add {
		ins += "; import \"" + p + "\""
	}
	return src[:off] + ins + src[off:]
}

type c09Sub struct {
	file     int
	from, to int // byte range in the file
	repl     string
	quoted   bool // from a message (not a machine fix)
	origText string
}

// c09Judge applies one replacement and returns (kind, detail) of the first broken clause ("" = fine).
func c09Judge(p *progenum.Prog, pk *harness.Pkg, set *harness.Set, d harness.Diag, s c09Sub, allowErr bool) (string, string) {
	src := p.Files[s.file].Src
	orig := src[s.from:s.to]
	// category of what is replaced
	_, exprErr := parser.ParseExpr(orig)
	isExpr := exprErr == nil
	var origNode ast.Expr
	if isExpr {
		// find the expression node with exactly this extent
		f := pk.Files[s.file]
		base := harness.Fset.File(f.Pos()).Base()
		ast.Inspect(f, func(n ast.Node) bool {
			if e, ok := n.(ast.Expr); ok && origNode == nil && int(e.Pos())-base == s.from && int(e.End())-base == s.to {
				origNode = e
			}
			return origNode == nil
		})
	}
	if isExpr && origNode != nil {
		if _, err := parser.ParseExpr(s.repl); err != nil {
			return "does-not-parse-as-expression", fmt.Sprintf("replacement %q for expression %q: %v", s.repl, orig, err)
		}
	} else {
		// statement(s) / declaration: the replacement must parse in the same position
		if _, err := parser.ParseFile(token.NewFileSet(), "x.go", "package p\nfunc _() {\n"+s.repl+"\n}", 0); err != nil {
			if _, err2 := parser.ParseFile(token.NewFileSet(), "x.go", "package p\n"+s.repl+"\n", 0); err2 != nil {
				if _, err3 := parser.ParseExpr(s.repl); err3 != nil {
					return "does-not-parse", fmt.Sprintf("replacement %q for %q is neither statements, a declaration nor an expression: %v", s.repl, orig, err)
				}
			}
		}
	}
	newSrc := src[:s.from] + s.repl + src[s.to:]
	newSrc = addImports(newSrc, s.repl)
	shift := len(newSrc) - (len(src) - (s.to - s.from) + len(s.repl)) // bytes inserted by addImports (before s.from)
	nf := make([]harness.File, len(p.Files))
	copy(nf, p.Files)
	nf[s.file] = harness.File{Name: p.Files[s.file].Name, Src: newSrc}
	np := harness.Load(p.Path, nf)
	defer np.Release()
	if !allowErr {
		for _, e := range np.Errs {
			// an import that the replacement makes unnecessary is removed by whoever organises imports
			if strings.Contains(e.Error(), "imported and not used") {
				continue
			}
			return "breaks-type-check", fmt.Sprintf("after replacing %q by %q: %v", orig, s.repl, e)
		}
	}
	if isExpr && origNode != nil && !allowErr {
		ot := pk.Info.TypeOf(origNode)
		var nt types.Type
		f := np.Files[s.file]
		base := harness.Fset.File(f.Pos()).Base()
		var best ast.Expr
		ast.Inspect(f, func(n ast.Node) bool {
			if e, ok := n.(ast.Expr); ok && int(e.Pos())-base == s.from+shift && int(e.End())-base == s.from+shift+len(s.repl) {
				if best == nil {
					best = e
				}
			}
			return true
		})
		if best != nil {
			nt = np.Info.TypeOf(best)
		}
		_, oLit := origNode.(*ast.BasicLit)
		_, nLit := best.(*ast.BasicLit)
		if oLit && nLit {
			ot, nt = nil, nil // literal for literal: the recorded type is that of the context on both sides
		}
		if ot != nil && nt != nil && best != nil {
			// compare inside ONE type universe: evaluate the original text at the same place of the new package
			ob, oIsBasic := ot.(*types.Basic)
			nb, nIsBasic := nt.(*types.Basic)
			if oIsBasic && nIsBasic {
				// recorded types of both literals/constants already include their context: compare by kind
				if types.Default(ob).String() != types.Default(nb).String() && nb.Kind() != types.UntypedNil {
					return "changes-type", fmt.Sprintf("%q has type %s, replacement %q has type %s", orig, ot, s.repl, nt)
				}
			} else if tv, err := types.Eval(harness.Fset, np.Types, best.Pos(), orig); err == nil && tv.Type != nil {
				a, b := types.Default(tv.Type), types.Default(nt)
				untypedNil := false
				if bt, ok := nt.(*types.Basic); ok && bt.Kind() == types.UntypedNil {
					untypedNil = true // nil takes the type its context wants; the file type-checks
				}
				if !untypedNil && !types.Identical(a, b) {
					return "changes-type", fmt.Sprintf("%q has type %s, replacement %q has type %s", orig, tv.Type, s.repl, nt)
				}
			}
		}
	}
	// marker statements between matched statements must survive
	if strings.Count(newSrc, "vmBetween()") != strings.Count(src, "vmBetween()") {
		return "deletes-unrelated-statement", fmt.Sprintf("replacing %q by %q removes a statement that merely sits in between", orig, s.repl)
	}
	// re-analysis: the same diagnostic must not come back at the same place
	if !s.quoted {
		nd, _ := set.VisitAll(np)
		od, _ := set.VisitAll(pk)
		count := func(ds []harness.Diag) int {
			n := 0
			for _, x := range ds {
				if x.Checker == d.Checker && x.File == d.File {
					n++
				}
			}
			return n
		}
		for _, x := range nd {
			// the same diagnostic again at the same place, and not merely the next layer of a nested construct
			// (s[:][:] -> s[:]): the number of such diagnostics must go down
			if x.Checker == d.Checker && x.File == d.File && x.Text == d.Text && x.Offset == d.Offset+shift && count(nd) >= count(od) {
				return "diagnostic-persists-after-fix", fmt.Sprintf("after applying the fix %q the same diagnostic is reported again at the same position", s.repl)
			}
		}
	}
	return "", ""
}

var c09HeadRE = regexp.MustCompile(`^[!&*(]*([A-Za-z_][\w.]*)`)

func c09Head(repl string) string {
	if m := c09HeadRE.FindStringSubmatch(strings.TrimSpace(repl)); m != nil {
		h := m[1]
		if !strings.Contains(h, ".") {
			// a plain identifier: abstract variable names, keep well-known words
			switch h {
			case "nil", "true", "false", "len", "copy", "append", "new", "make", "errors", "strings", "bytes":
			default:
				if len(h) > 0 && h[0] >= 'a' && h[0] <= 'z' {
					return "ident"
				}
			}
		} else if i := strings.Index(h, "."); i > 0 {
			if _, std := c09StdPkgs[h[:i]]; !std {
				return "selector"
			}
		}
		return h
	}
	t := strings.TrimSpace(repl)
	if len(t) > 12 {
		t = t[:12]
	}
	return t
}

func c09(args []string) int {
	ev := evidence.New("C09", "exploration")
	tier := evidence.Tier()
	harness.Init()
	ev.Assume("imports of standard packages named by a replacement are added before type-checking (a single text edit cannot add them; every fixer organises imports)")
	ev.Assume("message formats that quote replacement code are listed in c09Formats; other messages are counted as unclassified and never judged")
	var mu sync.Mutex
	judged, unclassified, fixes := 0, 0, 0
	perChecker := map[string]int{}
	handle := func(r *caseResult) {
		ev.Eval(1)
		if len(r.crashes) > 0 || r.hang {
			return
		}
		p, pk := r.prog, r.pkg
		allowErr := allowCaseOrder(p)
		for _, d := range r.diags {
			fi := -1
			for i, f := range p.Files {
				if f.Name == d.File {
					fi = i
				}
			}
			if fi < 0 || !d.InFile {
				continue
			}
			var subs []c09Sub
			if d.HasFix && !d.FixInFile {
				// applying it would edit another file (or nothing that exists): the fix does not belong to this diagnostic
				ev.Violate(evidence.Violation{Key: d.Checker + "|fix-range-outside-the-diagnosed-file", What: d.Checker + ": the fix attached to a diagnostic edits a range that is invalid, inverted or lies in another file than the diagnosed code",
					Observed: d.String() + fmt.Sprintf("\ndiagnostic in %s at offset %d, fix range [%d,%d)", d.File, d.Offset, d.From, d.To), Replay: progReplay(p, d.Checker)})
				continue
			}
			if d.HasFix && d.FixInFile {
				if d.Offset < d.From || d.Offset >= d.To && d.To > d.From {
					ev.Violate(evidence.Violation{Key: d.Checker + "|fix-range-does-not-cover-the-diagnosed-code", What: d.Checker + ": the fix of a diagnostic edits a range that does not contain the diagnosed position (it changes unrelated code and leaves the diagnosed code as it is)",
						Observed: d.String() + fmt.Sprintf("\ndiagnostic at offset %d, fix range [%d,%d)", d.Offset, d.From, d.To), Replay: progReplay(p, d.Checker)})
					continue
				}
				subs = append(subs, c09Sub{file: fi, from: d.From, to: d.To, repl: d.Repl})
				mu.Lock()
				fixes++
				mu.Unlock()
			}
			for _, fm := range c09Formats {
				m := fm.re.FindStringSubmatch(d.Text)
				if m == nil {
					continue
				}
				b := fm.lit
				if fm.b > 0 {
					b = m[fm.b]
				}
				// locate the quoted original in the source around the diagnostic
				src := p.Files[fi].Src
				f := pk.Files[fi]
				base := harness.Fset.File(f.Pos()).Base()
				var found ast.Node
				if fm.a == 0 {
					ast.Inspect(f, func(n ast.Node) bool {
						if l, ok := n.(*ast.BasicLit); ok && int(l.Pos())-base == d.Offset {
							found = l
						}
						return found == nil
					})
				} else {
					want := stripWS(m[fm.a])
					// the flagged node itself, else the first node with that text inside the enclosing statement
					var encl ast.Node
					ast.Inspect(f, func(n ast.Node) bool {
						if n == nil {
							return false
						}
						if _, ok := n.(ast.Stmt); ok && int(n.Pos())-base <= d.Offset && d.Offset < int(n.End())-base {
							encl = n
						}
						if _, ok := n.(ast.Decl); ok && encl == nil && int(n.Pos())-base <= d.Offset && d.Offset < int(n.End())-base {
							encl = n
						}
						return true
					})
					if encl == nil {
						encl = f
					}
					ast.Inspect(encl, func(n ast.Node) bool {
						if e, ok := n.(ast.Expr); ok && found == nil {
							lo, hi := int(e.Pos())-base, int(e.End())-base
							if lo >= 0 && hi <= len(src) && lo >= d.Offset-200 && stripWS(src[lo:hi]) == want {
								if lo == d.Offset || found == nil {
									found = e
								}
							}
						}
						return true
					})
				}
				if found == nil {
					mu.Lock()
					unclassified++
					mu.Unlock()
					continue
				}
				subs = append(subs, c09Sub{file: fi, from: int(found.Pos()) - base, to: int(found.End()) - base, repl: b, quoted: true})
				break
			}
			for _, s := range subs {
				mu.Lock()
				judged++
				perChecker[d.Checker]++
				mu.Unlock()
				ev.Eval(1) // one evaluation per judged replacement (programs without replacements are counted once above)
				ev.Nontrivial(fmt.Sprintf("%s|%s|%d", p.ID, d.Checker, d.Offset))
				kind, detail := c09Judge(p, pk, r.set, d, s, allowErr)
				if kind == "" {
					continue
				}
				src := "fix"
				if s.quoted {
					src = "quoted"
				}
				ev.Violate(evidence.Violation{
					Key:      fmt.Sprintf("%s|%s-%s|%s", d.Checker, src, kind, c09Head(s.repl)),
					What:     fmt.Sprintf("%s: the proposed replacement (%s) %s", d.Checker, src, strings.ReplaceAll(kind, "-", " ")),
					Observed: d.String() + "\n" + detail,
					Replay:   progReplay(p, d.Checker),
				})
			}
		}
	}
	corpus := func(emit func(progenum.Prog)) {
		testdataProgs(emit)
		progenum.Odd(emit)
		progenum.TypeShapes(emit)
		ops := map[string]bool{}
		for k := range quickMutOps {
			ops[k] = true
		}
		for _, k := range []string{"retype", "insertBetween", "parenOperandX", "parenOperandY", "swapOperands"} {
			ops[k] = true
		}
		if tier == "thorough" {
			ops = nil
		}
		mutantProgs(ops, nil)(emit)
	}
	st := runCorpus(corpus, runOpts{allowErrors: allowCaseOrder, keepPkg: false}, handle)
	ev.Set("programs_run", st.ran)
	ev.Set("replacements_judged", judged)
	ev.Set("machine_fixes_judged", fixes)
	ev.Set("messages_with_unlocatable_quotation", unclassified)
	var pcs []string
	for k, v := range perChecker {
		pcs = append(pcs, fmt.Sprintf("%s:%d", k, v))
	}
	sort.Strings(pcs)
	ev.Set("judged_per_checker", pcs)
	ev.Sample(map[string]interface{}{"clauses": []string{"replacement parses as the category of what it replaces", "file with the replacement substituted type-checks (std imports added)", "replaced expression keeps its type up to default typing", "marker statements inside a fix range survive", "re-analysis does not report the same diagnostic at the same place"}})
	ev.Set("rule", "every diagnostic that carries a machine fix or whose message quotes replacement code (formats in c09Formats) over: all example packages, odd-syntax and type-shape families, 1-deviation mutants of the examples (incl. named/alias re-typing of declarations and marker statements inserted between adjacent statements). non-trivial = distinct judged replacement")
	return ev.Finish()
}

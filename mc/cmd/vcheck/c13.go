package main

import (
	"fmt"
	"go/ast"
	"go/parser"
	"go/token"
	"runtime"
	"sort"
	"strings"
	"sync"
	"sync/atomic"

	"verif/mc/internal/evidence"
	"verif/mc/internal/harness"
	"verif/mc/internal/progenum"
)

func init() { register("C13", c13) }

// padding declarations (unique names through %[1]d; no predeclared identifiers: some example packages redeclare them)
var c13Paddings = []struct{ id, src string }{
	{"func", "func vpad%[1]d() {}"},
	{"bodyless", "func vpadExt%[1]d()"},
	{"method", "type vpadT%[1]d struct{}\n\nfunc (vpadT%[1]d) M() {}"},
	{"generic", "func vpadG%[1]d[T interface{}](x T) T { return x }"},
	{"type", "type vpadS%[1]d struct{ a, b struct{} }"},
	{"varblock", "var (\n\tvpadV%[1]d = struct{}{}\n\tvpadW%[1]d = vpadV%[1]d\n)"},
	{"const", "const vpadC%[1]d = 'c'"},
	{"control", "func vpadF%[1]d(xs []struct{}, ok struct{ b func() }) {\n\tfor i := range xs {\n\t\tswitch {\n\t\tcase i > 0:\n\t\t\tok.b()\n\t\tdefault:\n\t\t\tif i < 0 {\n\t\t\t\tok.b()\n\t\t\t}\n\t\t}\n\t}\n}"},
	{"defer", "func vpadD%[1]d(f func()) {\n\tdefer func() {\n\t\tf()\n\t}()\n}"},
}

var c13ReorderExempt = map[string]bool{"dupImport": true, "typeDefFirst": true, "commentedOutImport": true, "codegenComment": true}

type c13Variant struct {
	kind    string
	desc    string
	src     string
	padding [][2]int // line ranges (1-based, inclusive) that are padding
}

// c13Variants builds all transformed versions of one file.
func c13Variants(checker, filename, src string, tier string) []c13Variant {
	fset := token.NewFileSet()
	f, err := parser.ParseFile(fset, filename, src, parser.ParseComments)
	if err != nil {
		return nil
	}
	lines := strings.Split(src, "\n")
	lineOf := func(p token.Pos) int { return fset.Position(p).Line }
	// top-level declarations after the imports
	type chunk struct {
		start, end int // 1-based inclusive line range: from the line after the previous declaration to this declaration's last line
		plainFunc  bool
	}
	var decls []ast.Decl
	for _, d := range f.Decls {
		if gd, ok := d.(*ast.GenDecl); ok && gd.Tok == token.IMPORT {
			continue
		}
		decls = append(decls, d)
	}
	if len(decls) == 0 {
		return nil
	}
	prevEnd := 0
	for _, d := range f.Decls {
		if gd, ok := d.(*ast.GenDecl); ok && gd.Tok == token.IMPORT {
			prevEnd = lineOf(gd.End())
		}
	}
	if prevEnd == 0 {
		prevEnd = lineOf(f.Name.End())
	}
	// trailing comments on the same line as a declaration's end stay with it; comments after the last import line too
	var chunks []chunk
	for _, d := range decls {
		end := lineOf(d.End())
		fd, isFn := d.(*ast.FuncDecl)
		chunks = append(chunks, chunk{start: prevEnd + 1, end: end, plainFunc: isFn && fd.Recv == nil && fd.Name.Name != "init" && fd.Name.Name != "main"})
		prevEnd = end
	}
	tailStart := prevEnd + 1 // lines after the last declaration
	join := func(parts [][]string) string {
		var all []string
		for _, p := range parts {
			all = append(all, p...)
		}
		return strings.Join(all, "\n")
	}
	seg := func(a, b int) []string { // lines a..b (1-based inclusive)
		if a > b {
			return nil
		}
		return lines[a-1 : b]
	}
	head := seg(1, chunks[0].start-1)
	tailLines := seg(tailStart, len(lines))
	var out []c13Variant
	padCounter := 0
	padText := func(pi int) []string {
		padCounter++
		return strings.Split(fmt.Sprintf(c13Paddings[pi].src, 900000+padCounter), "\n")
	}
	// insertion of `ins` lines before chunk gi (gi == len(chunks): at the end of the file, after the tail)
	insertAt := func(gi int, ins []string, isPadding bool) (string, [][2]int) {
		var parts [][]string
		parts = append(parts, head)
		line := len(head)
		var pad [][2]int
		for i, c := range chunks {
			if i == gi {
				block := append(append([]string{""}, ins...), "")
				if isPadding {
					pad = append(pad, [2]int{line + 1, line + len(block)})
				}
				parts = append(parts, block)
				line += len(block)
			}
			cl := seg(c.start, c.end)
			parts = append(parts, cl)
			line += len(cl)
		}
		if gi == len(chunks) {
			// keep the file's own tail, then the insertion
			tl := tailLines
			for len(tl) > 0 && strings.TrimSpace(tl[len(tl)-1]) == "" {
				tl = tl[:len(tl)-1]
			}
			parts = append(parts, tl)
			line += len(tl)
			block := append(append([]string{""}, ins...), "")
			if isPadding {
				pad = append(pad, [2]int{line + 1, line + len(block)})
			}
			parts = append(parts, block)
		} else {
			parts = append(parts, tailLines)
		}
		return join(parts), pad
	}
	// T1: append each padding declaration
	for pi := range c13Paddings {
		s, pad := insertAt(len(chunks), padText(pi), true)
		out = append(out, c13Variant{"append", "append padding " + c13Paddings[pi].id, s, pad})
	}
	// T2: at every gap: blank lines and each padding declaration
	for gi := 1; gi < len(chunks); gi++ {
		for _, k := range []int{1, 3} {
			s, _ := insertAt(gi, make([]string, k), false)
			out = append(out, c13Variant{"blank", fmt.Sprintf("%d blank lines before declaration %d", k, gi+1), s, nil})
		}
		for pi := range c13Paddings {
			s, pad := insertAt(gi, padText(pi), true)
			out = append(out, c13Variant{"insert", fmt.Sprintf("padding %s before declaration %d", c13Paddings[pi].id, gi+1), s, pad})
		}
	}
	// T3: permutations of the plain-function chunks
	if !c13ReorderExempt[checker] {
		var fidx []int
		for i, c := range chunks {
			if c.plainFunc {
				fidx = append(fidx, i)
			}
		}
		if len(fidx) >= 2 {
			var perms [][]int
			n := len(fidx)
			if n <= 6 && tier == "thorough" || n <= 5 {
				var rec func(cur []int, used []bool)
				rec = func(cur []int, used []bool) {
					if len(cur) == n {
						perms = append(perms, append([]int{}, cur...))
						return
					}
					for i := 0; i < n; i++ {
						if !used[i] {
							used[i] = true
							rec(append(cur, i), used)
							used[i] = false
						}
					}
				}
				rec(nil, make([]bool, n))
				perms = perms[1:] // identity first
			} else {
				for r := 1; r < n; r++ {
					p := make([]int, n)
					for i := range p {
						p[i] = (i + r) % n
					}
					perms = append(perms, p)
				}
				rev := make([]int, n)
				for i := range rev {
					rev[i] = n - 1 - i
				}
				perms = append(perms, rev)
				for i := 0; i+1 < n; i++ {
					p := make([]int, n)
					for j := range p {
						p[j] = j
					}
					p[i], p[i+1] = p[i+1], p[i]
					perms = append(perms, p)
				}
			}
			for _, p := range perms {
				var parts [][]string
				parts = append(parts, head)
				k := 0
				for i, c := range chunks {
					src := c
					if c.plainFunc {
						src = chunks[fidx[p[k]]]
						k++
					}
					_ = i
					cl := seg(src.start, src.end)
					// keep chunks separated by a blank line even if the moved chunk had none
					if len(cl) > 0 && strings.TrimSpace(cl[0]) != "" {
						cl = append([]string{""}, cl...)
					}
					parts = append(parts, cl)
				}
				parts = append(parts, tailLines)
				out = append(out, c13Variant{"permute", fmt.Sprintf("plain functions reordered %v", p), join(parts), nil})
			}
		}
	}
	return out
}

func c13(args []string) int {
	ev := evidence.New("C13", "exploration")
	tier := evidence.Tier()
	harness.Init()
	infos := harness.Infos(nil)
	harness.ApplyParams(infos, harness.TestParams)
	registered := map[string]bool{}
	for _, in := range infos {
		registered[in.Name] = true
	}
	type job struct {
		checker string
		files   []harness.File
		fi      int
		v       c13Variant
	}
	jobs := make(chan job, 256)
	var wg sync.WaitGroup
	var mu sync.Mutex
	dropped, ran := 0, 0
	perKind := map[string]int{}
	checkersCovered := map[string]bool{}
	for w := 0; w < 16; w++ {
		wg.Add(1)
		go func() {
			defer wg.Done()
			sets := map[string]*harness.Set{}
			for j := range jobs {
				set := sets[j.checker]
				if set == nil {
					s, err := harness.NewSet(harness.Infos([]string{j.checker}), "")
					if err != nil {
						continue
					}
					sets[j.checker] = s
					set = s
				}
				nf := make([]harness.File, len(j.files))
				copy(nf, j.files)
				nf[j.fi] = harness.File{Name: j.files[j.fi].Name, Src: j.v.src}
				path := "github.com/go-critic/go-critic/checkers/testdata/" + j.checker
				if j.checker != "caseOrder" && !harness.Precheck(path, nf) {
					mu.Lock()
					dropped++
					mu.Unlock()
					continue
				}
				pk := harness.Load(path, nf)
				for _, f := range pk.Files {
					for _, cg := range f.Comments {
						for _, c := range cg.List {
							if strings.HasPrefix(c.Text, "/// ") {
								c.Text = "//"
							}
						}
					}
				}
				// visit the files in package order, judge the transformed one
				var diags []harness.Diag
				crashed := false
				for i := range pk.Files {
					d, cr := set.Visit(pk, i, i == 0)
					if len(cr) > 0 {
						crashed = true
					}
					if i == j.fi {
						diags = d
					}
				}
				pk.Release()
				mu.Lock()
				ran++
				perKind[j.v.kind]++
				checkersCovered[j.checker] = true
				mu.Unlock()
				ev.Eval(1)
				if crashed {
					continue // C01's subject
				}
				exp := harness.Expectations(j.v.src)
				inPad := func(line int) bool {
					for _, r := range j.v.padding {
						if line >= r[0] && line <= r[1] {
							return true
						}
					}
					return false
				}
				want := map[string]int{}
				nexp := 0
				for line, texts := range exp {
					for _, t := range texts {
						want[fmt.Sprintf("%d:%s", line, t)]++
						nexp++
					}
				}
				if nexp > 0 {
					ev.Nontrivial(j.checker + "|" + j.files[j.fi].Name + "|" + j.v.desc)
				}
				got := map[string]int{}
				for _, d := range diags {
					if inPad(d.Line) {
						continue
					}
					got[fmt.Sprintf("%d:%s", d.Line, d.Text)]++
				}
				var missing, extra []string
				for k, n := range want {
					if got[k] < n {
						missing = append(missing, k)
					}
				}
				for k, n := range got {
					if want[k] < n {
						extra = append(extra, k)
					}
				}
				sort.Strings(missing)
				sort.Strings(extra)
				if len(missing)+len(extra) > 0 {
					what := "expected warning lost"
					cls := "lost"
					if len(missing) == 0 {
						what, cls = "new warning appears", "new"
					}
					files := map[string]string{}
					for _, f := range nf {
						files[f.Name] = f.Src
					}
					ev.Violate(evidence.Violation{
						Key:      fmt.Sprintf("%s|%s|%s", j.checker, j.v.kind, cls),
						What:     fmt.Sprintf("%s: %s after an unrelated transformation (%s)", j.checker, what, j.v.kind),
						Observed: fmt.Sprintf("%s/%s: %s\nmissing: %v\nunexpected: %v", j.checker, j.files[j.fi].Name, j.v.desc, missing, extra),
						Replay:   map[string]interface{}{"kind": "program", "id": "c13|" + j.checker + "|" + j.v.desc, "path": path, "files": files, "checker": j.checker},
					})
				}
			}
		}()
	}
	nfiles := 0
	for _, name := range harness.TestdataNames() {
		if !registered[name] {
			continue
		}
		groups, err := harness.TestdataFiles(name)
		if err != nil {
			continue
		}
		var keys []string
		for k := range groups {
			keys = append(keys, k)
		}
		sort.Strings(keys)
		for _, k := range keys {
			files := groups[k]
			for fi, f := range files {
				nfiles++
				for _, v := range c13Variants(name, f.Name, f.Src, tier) {
					jobs <- job{name, files, fi, v}
				}
			}
		}
	}
	close(jobs)
	wg.Wait()
	// ---- leg 2: differential locality on generated declarations (no expectations needed): the diagnostics
	// of a declaration are the same alone, before and after any other declaration of the scale family
	c13Pairs(ev, tier)
	// ---- leg 3: reordering plain functions in packages whose struct types embed each other in every way
	c13Graphs(ev)

	ev.Set("example_files", nfiles)
	ev.Set("variants_run", ran)
	ev.Set("variants_dropped_ill_typed", dropped)
	ev.Set("variants_per_transformation", perKind)
	ev.Set("checkers_covered", len(checkersCovered))
	ev.Sample(map[string]interface{}{"transformations": []string{"append each of 9 padding declarations", "1 or 3 blank lines at every gap between top-level declarations", "each padding declaration at every gap", "permutations of the plain-function chunks"}, "oracle": "the file's own /*! */ expectations, re-read from the transformed text, must match the produced warnings exactly (warnings inside padding are discounted)"})
	ev.Set("rule", "every example file of every checker x every transformation instance; non-trivial = variant whose file carries at least one expectation. Reordering is not applied to dupImport, typeDefFirst, commentedOutImport, codegenComment (documented subject is file-level order); nothing is inserted above the package clause or the imports")
	ev.Cap("function permutations are complete up to 5 functions per file (6 thorough); beyond that rotations, the reversal and adjacent transpositions")
	_ = progenum.Apply
	return ev.Finish()
}

// c13Graphs: one file holding the types of a type-graph package and its use-site functions in every order; the
// diagnostics of a function (by name, message and line relative to the function) must not depend on the order.
func c13Graphs(ev *evidence.Run) {
	var mu sync.Mutex
	graphs, orders := 0, 0
	jobs := make(chan progenum.Prog, 64)
	var wg sync.WaitGroup
	for w := 0; w < runtime.GOMAXPROCS(0); w++ {
		wg.Add(1)
		go func() {
			defer wg.Done()
			set, err := harness.NewSet(harness.Infos(nil), "")
			if err != nil {
				panic(err)
			}
			for p0 := range jobs {
				p := progenum.ValidUseFiles(p0)
				if len(p.Files) < 3 {
					continue
				}
				types := p.Files[0].Src
				var fns []string
				for _, f := range p.Files[1:] {
					fns = append(fns, strings.TrimPrefix(f.Src, "package eg\n\n"))
				}
				var ref map[string][]string
				bad := false
				permute(len(fns), func(perm []int) {
					if bad {
						return
					}
					src := types
					for _, k := range perm {
						src += "\n" + fns[k]
					}
					pk := harness.Load("eg", []harness.File{{Name: "f.go", Src: src}})
					defer pk.Release()
					if len(pk.Errs) > 0 {
						return
					}
					d, _ := set.VisitAll(pk)
					// attribute each diagnostic to the function it lies in (by line ranges of the rendered chunks)
					got := map[string][]string{}
					lines := strings.Split(src, "\n")
					fnAt := make([]string, len(lines)+2)
					cur := ""
					for li, l := range lines {
						if strings.HasPrefix(l, "func use") {
							cur = l[5:strings.Index(l, "(")]
						} else if strings.HasPrefix(l, "type ") || strings.HasPrefix(l, "func (") {
							cur = ""
						}
						fnAt[li+1] = cur
					}
					for _, x := range d {
						if x.Line < len(fnAt) && fnAt[x.Line] != "" {
							got[fnAt[x.Line]] = append(got[fnAt[x.Line]], x.Checker+": "+x.Text)
						}
					}
					for k := range got {
						sort.Strings(got[k])
					}
					mu.Lock()
					orders++
					mu.Unlock()
					ev.Eval(1)
					if ref == nil {
						ref = got
						return
					}
					for _, name := range []string{"use0", "use1", "use2"} {
						if strings.Join(ref[name], "|") != strings.Join(got[name], "|") {
							bad = true
							ch := "?"
							if all := append(append([]string{}, ref[name]...), got[name]...); len(all) > 0 {
								ch = strings.SplitN(all[0], ":", 2)[0]
							}
							ev.Violate(evidence.Violation{Key: ch + "|permute|type-graph", What: "diagnostics of a function change when plain functions of the file are reordered (types that embed each other)",
								Observed: fmt.Sprintf("%s order %v, function %s\nfirst order: %v\nthis order:  %v", p.ID, perm, name, ref[name], got[name]), Replay: map[string]interface{}{"path": "eg", "files": map[string]string{"f.go": src}}})
							return
						}
					}
				})
				mu.Lock()
				graphs++
				mu.Unlock()
				ev.Nontrivial("type-graph|" + p.ID)
			}
		}()
	}
	progenum.EmbedGraphs(2, 3, func(p progenum.Prog) { jobs <- p })
	close(jobs)
	wg.Wait()
	ev.Set("type_graph_packages_reordered", graphs)
	ev.Set("type_graph_orders", orders)
}

func c13Pairs(ev *evidence.Run, tier string) {
	pool := progenum.ScaleFuncs()
	type rel struct {
		line, col int
		checker   string
		text      string
	}
	lineCount := func(s string) int { return strings.Count(s, "\n") + 1 }
	analyse := func(set *harness.Set, chunks []progenum.ScaleFunc) (map[int][]string, bool) {
		src := "package vpkg\n"
		starts := make([]int, len(chunks))
		line := 2
		for i, c := range chunks {
			src += "\n" + c.Src + "\n"
			starts[i] = line + 1
			line += 1 + lineCount(c.Src)
		}
		pk := harness.LoadOne(src)
		defer pk.Release()
		if len(pk.Errs) > 0 {
			return nil, false
		}
		d, crashes := set.VisitAll(pk)
		if len(crashes) > 0 {
			return nil, false
		}
		out := map[int][]string{}
		for _, x := range d {
			ci := -1
			for i := range chunks {
				if x.Line >= starts[i] && x.Line < starts[i]+lineCount(chunks[i].Src) {
					ci = i
				}
			}
			out[ci] = append(out[ci], fmt.Sprintf("+%d:%d: %s: %s", x.Line-startsAt(starts, ci), x.Col, x.Checker, x.Text))
		}
		for k := range out {
			sort.Strings(out[k])
		}
		return out, true
	}
	// baselines
	base := make([][]string, len(pool))
	ok := make([]bool, len(pool))
	{
		set, err := harness.NewSet(harness.Infos(nil), "")
		if err != nil {
			panic(err)
		}
		for i, f := range pool {
			m, good := analyse(set, []progenum.ScaleFunc{f})
			ok[i] = good
			base[i] = m[0]
		}
	}
	type pair struct{ i, j int }
	jobs := make(chan pair, 256)
	var wg sync.WaitGroup
	for w := 0; w < 16; w++ {
		wg.Add(1)
		go func() {
			defer wg.Done()
			set, err := harness.NewSet(harness.Infos(nil), "")
			if err != nil {
				panic(err)
			}
			for p := range jobs {
				m, good := analyse(set, []progenum.ScaleFunc{pool[p.i], pool[p.j]})
				ev.Eval(1)
				if !good {
					continue
				}
				ev.Nontrivial(fmt.Sprintf("pair|%s|%s", pool[p.i].ID, pool[p.j].ID))
				for pos, idx := range []int{p.i, p.j} {
					if !equalStrings(m[pos], base[idx]) {
						where := "followed by"
						other := pool[p.j].ID
						if pos == 1 {
							where, other = "preceded by", pool[p.i].ID
						}
						ev.Violate(evidence.Violation{
							Key:      fmt.Sprintf("%s|unrelated-declaration|%s", firstDiffChecker(m[pos], base[idx]), strings.TrimRight(pool[idx].ID, "0123456789")),
							What:     "the diagnostics of a declaration change when an unrelated declaration is placed next to it",
							Observed: fmt.Sprintf("%s %s %s\nonly then: %v\nonly alone: %v", pool[idx].ID, where, other, diffOnly(m[pos], base[idx]), diffOnly(base[idx], m[pos])),
							Replay:   map[string]interface{}{"kind": "program", "path": "vpkg", "files": map[string]string{"f.go": "package vpkg\n\n" + pool[p.i].Src + "\n\n" + pool[p.j].Src + "\n"}},
						})
					}
				}
			}
		}()
	}
	n := 0
	for i := range pool {
		for j := range pool {
			if i == j || !ok[i] || !ok[j] {
				continue
			}
			jobs <- pair{i, j}
			n++
		}
	}
	close(jobs)
	wg.Wait()
	// ordered triples of the constructs whose entries are names, all sizes distinct, each triple on a *fresh*
	// set of the hand-written checkers: a helper that keeps an index across declarations may need one large
	// construct to switch the index on, a second one to fill it and a third one to read it
	var hand []string
	for _, in := range harness.Infos(nil) {
		if !in.EmbeddedRuleguard && in.Name != "ruleguard" {
			hand = append(hand, in.Name)
		}
	}
	baseHand := map[int][]string{}
	byKind := map[string][]int{}
	for i, f := range pool {
		kind := strings.TrimRight(f.ID, "0123456789")
		if !strings.HasSuffix(kind, "Ident") || !ok[i] {
			continue
		}
		set, err := harness.NewSet(harness.Infos(hand), "")
		if err != nil {
			panic(err)
		}
		m, good := analyse(set, []progenum.ScaleFunc{f})
		if !good {
			continue
		}
		baseHand[i] = m[0]
		byKind[kind] = append(byKind[kind], i)
	}
	type triple struct{ a, b, c int }
	tjobs := make(chan triple, 256)
	var twg sync.WaitGroup
	var nt int64
	for w := 0; w < 16; w++ {
		twg.Add(1)
		go func() {
			defer twg.Done()
			for t := range tjobs {
				set, err := harness.NewSet(harness.Infos(hand), "")
				if err != nil {
					panic(err)
				}
				idx := []int{t.a, t.b, t.c}
				m, good := analyse(set, []progenum.ScaleFunc{pool[t.a], pool[t.b], pool[t.c]})
				ev.Eval(1)
				atomic.AddInt64(&nt, 1)
				if !good {
					continue
				}
				for pos, i := range idx {
					if !equalStrings(m[pos], baseHand[i]) {
						ev.Violate(evidence.Violation{
							Key:      fmt.Sprintf("%s|unrelated-declaration|%s", firstDiffChecker(m[pos], baseHand[i]), strings.TrimRight(pool[i].ID, "0123456789")),
							What:     "the diagnostics of a declaration change when unrelated declarations are placed before it",
							Observed: fmt.Sprintf("%s in the file %s, %s, %s\nonly then: %v\nonly alone: %v", pool[i].ID, pool[t.a].ID, pool[t.b].ID, pool[t.c].ID, diffOnly(m[pos], baseHand[i]), diffOnly(baseHand[i], m[pos])),
							Replay:   map[string]interface{}{"kind": "program", "path": "vpkg", "files": map[string]string{"f.go": "package vpkg\n\n" + pool[t.a].Src + "\n\n" + pool[t.b].Src + "\n\n" + pool[t.c].Src + "\n"}},
						})
					}
				}
			}
		}()
	}
	var kinds []string
	for k := range byKind {
		kinds = append(kinds, k)
	}
	sort.Strings(kinds)
	for _, k := range kinds {
		is := byKind[k]
		for _, a := range is {
			for _, b := range is {
				for _, c := range is {
					if a != b && b != c && a != c {
						tjobs <- triple{a, b, c}
					}
				}
			}
		}
	}
	close(tjobs)
	twg.Wait()
	ev.Set("ordered_triples_of_named_entry_constructs_on_fresh_sets", nt)
	ev.Set("scale_family_declarations", len(pool))
	ev.Set("ordered_pairs_analysed", n)
}

func startsAt(starts []int, i int) int {
	if i < 0 {
		return 0
	}
	return starts[i]
}

// vcheck: one binary, one sub-command per property.
package main

import (
	"fmt"
	"os"
	"sort"

	"verif/mc/internal/harness"
)

type cmdFn func(args []string) int

var commands = map[string]cmdFn{}

func register(name string, fn cmdFn) { commands[name] = fn }

func main() {
	if len(os.Args) < 2 {
		usage()
	}
	fn, ok := commands[os.Args[1]]
	if !ok {
		usage()
	}
	code := fn(os.Args[2:])
	harness.Cleanup()
	os.Exit(code)
}

func usage() {
	var names []string
	for n := range commands {
		names = append(names, n)
	}
	sort.Strings(names)
	fmt.Fprintf(os.Stderr, "usage: vcheck <cmd> [args]; commands: %v\n", names)
	os.Exit(2)
}

// vcheck: one binary, one sub-command per property.
package main

import (
	"fmt"
	"os"
	"sort"
	"strings"

	"verif/mc/internal/harness"
)

type cmdFn func(args []string) int

var commands = map[string]cmdFn{}

func register(name string, fn cmdFn) { commands[name] = fn }

func main() {
	if len(os.Args) < 2 {
		usage()
	}
	fn, ok := commands[os.Args[1]]
	if !ok {
		usage()
	}
	var code int
	if len(os.Args) > 3 && os.Args[2] == "--replay" && os.Args[1] != "C01" && os.Args[1] != "C07" && strings.HasPrefix(os.Args[1], "C") {
		code = replayGeneric(os.Args[1], os.Args[3])
		harness.Cleanup()
		os.Exit(code)
	}
	if supervised[os.Args[1]] && os.Getenv("VERIF_CHILD") == "" && !(len(os.Args) > 2 && os.Args[2] == "--replay") {
		code = supervise(os.Args[1], os.Args[2:])
	} else {
		code = fn(os.Args[2:])
	}
	harness.Cleanup()
	os.Exit(code)
}

func usage() {
	var names []string
	for n := range commands {
		names = append(names, n)
	}
	sort.Strings(names)
	fmt.Fprintf(os.Stderr, "usage: vcheck <cmd> [args]; commands: %v\n", names)
	os.Exit(2)
}

package main

import (
	"fmt"
	"sync/atomic"
	"time"

	"verif/mc/internal/harness"
	"verif/mc/internal/progenum"
)

func init() { register("mut2count", mut2count) }

// mut2count [all] prints how many 2-deviation mutants the locality bound yields and how many type-check
// (sizing aid; not a check).
func mut2count(args []string) int {
	installFakeResolver()
	harness.Init()
	ops := quickMutOps
	if len(args) > 0 && args[0] == "all" {
		ops = nil
	}
	ml := 0
	if len(args) > 2 {
		fmt.Sscan(args[2], &ml)
	}
	t0 := time.Now()
	var gen, ok int64
	mutantPairProgs(ops, ml, nil)(func(p progenum.Prog) {
		atomic.AddInt64(&gen, 1)
		if len(args) > 1 && gen%50 != 0 {
			return
		}
		if harness.Precheck(p.Path, p.Files) {
			ok++
		}
	})
	fmt.Printf("pairs generated=%d well-typed=%d in %.1fs\n", gen, ok, time.Since(t0).Seconds())
	return 0
}

package main

import (
	"bytes"
	"encoding/json"
	"fmt"
	"log"
	"os"
	"path/filepath"
	"sort"
	"strings"
	"sync"
	"time"

	"verif/mc/internal/evidence"
	"verif/mc/internal/harness"
)

func init() { register("C18", c18) }

// rule file kinds of the fault alphabet
var c18Kinds = []string{"validA", "validB", "unreadable", "syntaxerr", "dslerr", "badimport", "empty"}

var c18Class = map[string]string{"validA": "ok", "validB": "ok", "unreadable": "read", "syntaxerr": "dsl", "dslerr": "dsl", "badimport": "import", "empty": "dsl"}

type rgGroup struct {
	name string
	tags []string
	msg  string
	file string
}

var c18Groups = []rgGroup{
	{"gNone", nil, "A:gNone", "validA"},
	{"gStyle", []string{"style"}, "A:gStyle", "validA"},
	{"gTest", []string{"test"}, "A:gTest", "validA"},
	{"gExp", []string{"experimental"}, "A:gExp", "validA"},
	{"gStyleExp", []string{"style", "experimental"}, "A:gStyleExp", "validA"},
	{"hB", nil, "B:hB", "validB"},
	{"hStyle", []string{"style"}, "B:hStyle", "validB"},
}

type c18Cfg struct {
	Seq     []string `json:"seq"`     // file kinds, or "nomatch"
	Glob    bool     `json:"glob"`    // give the files as one glob pattern
	FailOn  string   `json:"failOn"`  // "" = unset
	Legacy  bool     `json:"legacy"`  // failOnError
	Enable  string   `json:"enable"`  // "<all>" default
	Disable string   `json:"disable"` //
}

func (c c18Cfg) String() string {
	return fmt.Sprintf("rules=%v glob=%v failOn=%q failOnError=%v enable=%q disable=%q", c.Seq, c.Glob, c.FailOn, c.Legacy, c.Enable, c.Disable)
}

type c18Expect struct {
	mustFail, mustSucceed bool // neither = open
	why                   string
	msgs                  map[string]bool // expected messages when it succeeds
	open                  map[string]bool // messages whose presence is left open
}

func inCSV(list, item string) bool {
	for _, x := range strings.Split(list, ",") {
		if strings.TrimSpace(x) == item {
			return true
		}
	}
	return false
}

// c18Model is the reference model of the stated policy.
func c18Model(c c18Cfg) c18Expect {
	e := c18Expect{msgs: map[string]bool{}, open: map[string]bool{}}
	eff := map[string]bool{}
	badValue := false
	if c.FailOn != "" {
		for _, v := range strings.Split(c.FailOn, ",") {
			switch v {
			case "":
			case "dsl", "import", "all":
				eff[v] = true
			default:
				badValue = true
			}
		}
	} else if c.Legacy {
		eff["all"] = true
	}
	if badValue {
		e.mustFail, e.why = true, "bad-failOn-value"
		return e
	}
	openFail := false
	for _, k := range c.Seq {
		if k == "nomatch" {
			e.mustFail, e.why = true, "pattern-without-match"
			return e
		}
		cl := c18Class[k]
		switch {
		case cl == "ok":
		case eff["all"] || eff[cl]:
			e.mustFail, e.why = true, "class="+cl+",failOn"
			return e
		case cl == "read" && (eff["dsl"] || eff["import"]):
			openFail = true // the statement does not say which class an unreadable file belongs to
		}
	}
	if openFail {
		e.why = "open:unreadable-file-class"
		return e
	}
	e.mustSucceed = true
	loaded := map[string]bool{}
	for _, k := range c.Seq {
		if c18Class[k] == "ok" {
			loaded[k] = true
		}
	}
	for _, g := range c18Groups {
		if !loaded[g.file] {
			continue
		}
		hasTagIn := func(list string) bool {
			for _, t := range g.tags {
				if inCSV(list, "#"+t) {
					return true
				}
			}
			return false
		}
		isExp := false
		for _, t := range g.tags {
			if t == "experimental" {
				isExp = true
			}
		}
		enabled := c.Enable == "<all>" || inCSV(c.Enable, g.name) || hasTagIn(c.Enable)
		disabled := inCSV(c.Disable, g.name) || hasTagIn(c.Disable)
		run := enabled && !disabled
		if isExp && !inCSV(c.Enable, "#experimental") {
			if inCSV(c.Enable, g.name) && !disabled {
				e.open[g.msg] = true // experimental group asked for by name only: left open
				continue
			}
			run = false
		}
		if run {
			e.msgs[g.msg] = true
		}
	}
	return e
}

func c18Configs(tier string) []c18Cfg {
	maxLen := 3
	if tier == "thorough" {
		maxLen = 4
	}
	var seqs [][]string
	var rec func(prefix []string)
	rec = func(prefix []string) {
		if len(prefix) > 0 {
			seqs = append(seqs, append([]string{}, prefix...))
		}
		if len(prefix) == maxLen {
			return
		}
		for _, k := range c18Kinds {
			dup := false
			for _, p := range prefix {
				if p == k && c18Class[k] == "ok" {
					dup = true // the same valid file twice redefines its groups: outside the statement
				}
			}
			if !dup {
				rec(append(prefix, k))
			}
		}
	}
	rec(nil)
	// a pattern matching nothing in each position of a two-element list
	seqs = append(seqs, []string{"nomatch"}, []string{"validA", "nomatch"}, []string{"nomatch", "validA"}, []string{"syntaxerr", "nomatch"}, []string{"nomatch", "badimport"})
	failOns := []string{"", "dsl", "import", "all", "dsl,import", "bogus", "dsl,bogus", "all,"}
	var out []c18Cfg
	for _, s := range seqs {
		for _, f := range failOns {
			for _, lg := range []bool{false, true} {
				for _, gl := range []bool{false, true} {
					if gl {
						hasNo := false
						for _, k := range s {
							if k == "nomatch" {
								hasNo = true
							}
						}
						if hasNo {
							continue
						}
					}
					out = append(out, c18Cfg{Seq: s, Glob: gl, FailOn: f, Legacy: lg, Enable: "<all>", Disable: ""})
				}
			}
		}
	}
	// group filtering: enable x disable on representative sequences
	enables := []string{"<all>", "gStyle", "#style", "#experimental", "nosuch", "gExp", "#style,#experimental", "hB,#test", "gStyleExp,#experimental", "",
		// a blank after the comma (the usual way to write a list) does not change what an entry means
		"nosuch, #style", "gStyle, #experimental", " #test"}
	disables := []string{"", "gNone", "#style", "#test", "gStyle,#test", "#experimental", "nosuch", "gNone, #test", " #style "}
	for _, s := range [][]string{{"validA"}, {"validA", "validB"}, {"validB", "syntaxerr", "validA"}, {"badimport", "validA"}} {
		for _, en := range enables {
			for _, di := range disables {
				for _, gl := range []bool{false, true} {
					out = append(out, c18Cfg{Seq: s, Glob: gl, FailOn: "", Enable: en, Disable: di})
				}
			}
		}
	}
	// unknown failOn while no rules are given ("always an error")
	out = append(out, c18Cfg{Seq: nil, FailOn: "bogus", Enable: "<all>"})
	return out
}

type c18Obs struct {
	InitErr string   `json:"init_err"`
	Msgs    []string `json:"msgs"`
	Log     string   `json:"log"`
}

func c18Materialize(dir string, c c18Cfg, fixtures map[string][]byte) string {
	os.RemoveAll(dir)
	os.MkdirAll(dir, 0o755)
	var paths []string
	for i, k := range c.Seq {
		name := fmt.Sprintf("%02d_%s.go", i, k)
		p := filepath.Join(dir, name)
		switch k {
		case "nomatch":
			p = filepath.Join(dir, fmt.Sprintf("%02d_nomatch_*.go", i))
		case "unreadable":
			os.MkdirAll(p, 0o755)
		default:
			os.WriteFile(p, fixtures[k], 0o644)
		}
		paths = append(paths, p)
	}
	if c.Glob {
		return filepath.Join(dir, "*.go")
	}
	return strings.Join(paths, ",")
}

func c18Run(c c18Cfg, dir string, fixtures map[string][]byte, target *harness.Pkg) c18Obs {
	rules := ""
	if len(c.Seq) > 0 {
		rules = c18Materialize(dir, c, fixtures)
	}
	infos := harness.Infos([]string{"ruleguard"})
	p := infos[0].Params
	p["rules"].Value = rules
	p["failOn"].Value = c.FailOn
	p["failOnError"].Value = c.Legacy
	p["enable"].Value = c.Enable
	p["disable"].Value = c.Disable
	var lb bytes.Buffer
	log.SetOutput(&lb)
	defer log.SetOutput(os.Stderr)
	var obs c18Obs
	set, err := harness.NewSet(infos, "")
	if err != nil {
		obs.InitErr = err.Error()
		obs.Log = lb.String()
		return obs
	}
	d, crashes := set.VisitAll(target)
	for _, x := range d {
		obs.Msgs = append(obs.Msgs, x.Text)
	}
	for _, cr := range crashes {
		obs.Msgs = append(obs.Msgs, "CRASH "+cr.Value)
	}
	sort.Strings(obs.Msgs)
	obs.Log = lb.String()
	return obs
}

type c18ChildResult struct {
	Evaluations int                  `json:"evaluations"`
	Open        int                  `json:"open"`
	Nontrivial  []string             `json:"nontrivial"`
	Violations  []evidence.Violation `json:"violations"`
	Samples     []interface{}        `json:"samples"`
}

func c18Judge(c c18Cfg, obs c18Obs, res *c18ChildResult) {
	exp := c18Model(c)
	replay := map[string]interface{}{"kind": "rulefiles", "config": c}
	viol := func(key, what string) {
		res.Violations = append(res.Violations, evidence.Violation{Key: key, What: what, Observed: c.String() + "\n  init error: " + obs.InitErr + "\n  diagnostics: " + strings.Join(obs.Msgs, " | "), Replay: replay})
	}
	if !exp.mustFail && !exp.mustSucceed {
		res.Open++
		return
	}
	if exp.mustFail {
		if obs.InitErr == "" {
			viol("init-should-fail|"+exp.why, "initialisation succeeds although the policy says it must fail ("+exp.why+")")
		}
		return
	}
	if obs.InitErr != "" {
		classes := map[string]bool{}
		for _, k := range c.Seq {
			classes[c18Class[k]] = true
		}
		var cl []string
		for k := range classes {
			cl = append(cl, k)
		}
		sort.Strings(cl)
		viol(fmt.Sprintf("init-should-succeed|failOn=%s,legacy=%v,classes=%s", c.FailOn, c.Legacy, strings.Join(cl, "+")), "initialisation fails although no listed failure class occurred")
		return
	}
	got := map[string]int{}
	for _, m := range obs.Msgs {
		got[m]++
	}
	for m := range exp.msgs {
		if got[m] != 1 {
			viol("group-should-run|"+m, fmt.Sprintf("group %s must run (enabled, not disabled, file loaded) but reported %d times", m, got[m]))
		}
	}
	for m, n := range got {
		if exp.msgs[m] || exp.open[m] {
			continue
		}
		cls := m
		if strings.HasPrefix(m, "execution error: used Run() with an empty rule set") {
			cls = "execution-error-empty-rule-set"
		}
		viol("unexpected-diagnostic|"+cls, fmt.Sprintf("diagnostic %q (x%d) from a group that must not run / from nothing", m, n))
	}
}

func c18(args []string) int {
	// rule files import the ruleguard dsl package; it resolves through the harness module
	os.Chdir(filepath.Join(evidence.Root, "mc"))
	if len(args) >= 3 && args[0] == "--child" {
		return c18Child(args[1], args[2], args[3])
	}
	ev := evidence.New("C18", "fault_enumeration")
	tier := evidence.Tier()
	cfgs := c18Configs(tier)
	n := 12
	var wg sync.WaitGroup
	results := make([]c18ChildResult, n)
	failed := make([]string, n)
	for i := 0; i < n; i++ {
		wg.Add(1)
		go func(i int) {
			defer wg.Done()
			out := filepath.Join(harness.WorkDir(), fmt.Sprintf("c18-%d.json", i))
			res := harness.RunCmd(filepath.Join(evidence.Root, "mc"), append(os.Environ(), "VERIF_CHILD=1"), 60*time.Minute, os.Args[0], "C18", "--child", fmt.Sprint(i), fmt.Sprint(n), out)
			data, err := os.ReadFile(out)
			if res.Exit != 0 || err != nil || json.Unmarshal(data, &results[i]) != nil {
				failed[i] = fmt.Sprintf("child %d exit=%d: %s", i, res.Exit, tail([]byte(res.Stderr), 1500))
			}
		}(i)
	}
	wg.Wait()
	for _, f := range failed {
		if f != "" {
			fmt.Fprintln(os.Stderr, "C18 child failed (broken check):", f)
			return 2
		}
	}
	open := 0
	for _, r := range results {
		ev.Eval(r.Evaluations)
		open += r.Open
		for _, id := range r.Nontrivial {
			ev.Nontrivial(id)
		}
		for _, v := range r.Violations {
			ev.Violate(v)
		}
		for _, s := range r.Samples {
			ev.Sample(s)
		}
	}
	ev.Set("configurations", len(cfgs))
	ev.Set("configurations_left_open_by_the_statement", open)
	ev.Set("fault_alphabet", c18Kinds)
	ev.Set("max_sequence_length", map[string]int{"quick": 3, "thorough": 4}[tier])
	ev.Set("rule", "all sequences of rule files over {validA, validB, unreadable(directory), syntax error, DSL error, unloadable import in a type filter, empty} up to the stated length (comma list and glob) x failOn {unset,dsl,import,all,dsl+import,bogus,dsl+bogus,'all,'} x legacy flag; enable x disable lists over names/tags on representative sequences; a pattern matching nothing in each position. Each configuration runs the real newRuleguardChecker and then analyses a file that triggers every group; oracle = reference model of the stated policy. non-trivial = configuration with a definite expectation")
	ev.Assume("left open (both answers accepted): failure class of an unreadable file under failOn=dsl/import; an experimental group enabled by name only; the same valid file listed twice")
	return ev.Finish()
}

func c18Child(si, sn, out string) int {
	var i, n int
	fmt.Sscan(si, &i)
	fmt.Sscan(sn, &n)
	cfgs := c18Configs(evidence.Tier())
	fixtures := map[string][]byte{}
	for _, k := range c18Kinds {
		if k == "unreadable" {
			continue
		}
		data, err := os.ReadFile(filepath.Join(evidence.Root, "fixtures", "rules", k+".go"))
		if err != nil {
			fmt.Fprintln(os.Stderr, err)
			return 2
		}
		fixtures[k] = data
	}
	tsrc, err := os.ReadFile(filepath.Join(evidence.Root, "fixtures", "rules", "target.go.txt"))
	if err != nil {
		fmt.Fprintln(os.Stderr, err)
		return 2
	}
	target := harness.LoadOne(string(tsrc))
	if len(target.Errs) > 0 {
		fmt.Fprintln(os.Stderr, "target:", target.Errs)
		return 2
	}
	dir := filepath.Join(harness.WorkDir(), "rg")
	var res c18ChildResult
	for k, c := range cfgs {
		if k%n != i {
			continue
		}
		obs := c18Run(c, dir, fixtures, target)
		res.Evaluations++
		exp := c18Model(c)
		if exp.mustFail || exp.mustSucceed {
			res.Nontrivial = append(res.Nontrivial, c.String())
		}
		c18Judge(c, obs, &res)
		if len(res.Samples) < 1 && len(c.Seq) == 2 && i == 0 {
			res.Samples = append(res.Samples, map[string]interface{}{"config": c, "observed": obs, "expected_messages": exp.msgs, "must_fail": exp.mustFail})
		}
	}
	data, _ := json.Marshal(res)
	if err := os.WriteFile(out, data, 0o644); err != nil {
		fmt.Fprintln(os.Stderr, err)
		return 2
	}
	return 0
}

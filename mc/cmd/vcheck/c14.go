package main

import (
	"fmt"
	"os"
	"path/filepath"
	"regexp"
	"sort"
	"strconv"
	"strings"
	"sync"
	"time"

	"verif/mc/internal/evidence"
	"verif/mc/internal/harness"
)

func init() { register("C14", c14) }

const c14Witness = `package w

type S struct{}

func (s *S) M() {}

func CaptLocal(a int) int {
	B := a
	return B
}

func commented() {
	// doSomething(12, 34)
}

func elseIf(a, b bool) {
	if a {
		if b {
			println(1)
		}
	} else {
		if b {
			println(2)
		}
	}
}

func hugeP(p [16]byte) {}

func chain(x int) int {
	if x == 1 {
		return 1
	} else if x == 2 {
		return 2
	} else if x == 3 {
		return 3
	}
	return 0
}

func nest(xs []int) {
	for _, x := range xs {
		if x > 0 {
			println(1)
			println(2)
			println(3)
		}
	}
}

func rexpr() {
	var arr [16]byte
	for _, b := range arr {
		_ = b
	}
}

func rval(xs [][16]byte) {
	for _, x := range xs {
		_ = x
	}
}

func results() (int, string) { return 0, "" }

func trunc(x int, y int16) bool { return int16(x) < y }

func under(s *S) { (*s).M() }

func two() (float64, float64) { return 0, 0 }
`

const c14WitnessTest = `package w

import "testing"

func TestRange(t *testing.T) {
	var arr [1024]byte
	for _, b := range arr {
		_ = b
	}
	xs := make([][1024]byte, 1)
	for _, x := range xs {
		_ = x
	}
}
`

type paramCase struct {
	checker, param string
	v1, v2         interface{} // default, witness
}

var c14Params = []paramCase{
	{"captLocal", "paramsOnly", true, false},
	{"commentedOutCode", "minLength", 15, 100},
	{"elseif", "skipBalanced", true, false},
	{"hugeParam", "sizeThreshold", 80, 8},
	{"ifElseChain", "minThreshold", 2, 5},
	{"nestingReduce", "bodyWidth", 5, 2},
	{"rangeExprCopy", "sizeThreshold", 512, 8},
	{"rangeExprCopy", "skipTestFuncs", true, false},
	{"rangeValCopy", "sizeThreshold", 128, 8},
	{"rangeValCopy", "skipTestFuncs", true, false},
	{"tooManyResultsChecker", "maxResults", 5, 1},
	{"truncateCmp", "skipArchDependent", true, false},
	{"underef", "skipRecvDeref", true, false},
	{"unnamedResult", "checkExported", false, true},
}

func setParam(checker, param string, v interface{}) (restore func()) {
	for _, in := range harness.Infos([]string{checker}) {
		p := in.Params[param]
		if p == nil {
			fmt.Fprintf(os.Stderr, "c14: checker %s has no parameter %s (harness drift)\n", checker, param)
			os.Exit(2)
		}
		old := p.Value
		p.Value = v
		return func() { p.Value = old }
	}
	fmt.Fprintf(os.Stderr, "c14: no checker %s (harness drift)\n", checker)
	os.Exit(2)
	return nil
}

func runOne(checker string, pk *harness.Pkg) []string {
	set, err := harness.NewSet(harness.Infos([]string{checker}), "")
	if err != nil {
		return []string{"INIT ERROR " + err.Error()}
	}
	d, crashes := set.VisitAll(pk)
	var out []string
	for _, x := range d {
		out = append(out, fmt.Sprintf("%s:%d:%d: %s", x.File, x.Line, x.Col, x.Text))
	}
	for _, c := range crashes {
		out = append(out, "CRASH "+c.Value)
	}
	sort.Strings(out)
	return out
}

var c14LineRE = regexp.MustCompile(`(?m)^(?:\S*/)?([\w.]+\.go):(\d+):(\d+): (\w+): (.*)$`)

func c14(args []string) int {
	ev := evidence.New("C14", "exploration")
	tier := evidence.Tier()
	harness.Init()

	// ------------------------------------------------------------ (a) plumbing through three routes
	pk := harness.Load("w", []harness.File{{Name: "w.go", Src: c14Witness}, {Name: "w_test.go", Src: c14WitnessTest}})
	if len(pk.Errs) > 0 {
		fmt.Fprintln(os.Stderr, "c14 witness does not type-check:", pk.Errs)
		return 2
	}
	// every registered parameter must be in the table (ruleguard's are C18's subject)
	known := map[string]bool{}
	for _, pc := range c14Params {
		known[pc.checker+"."+pc.param] = true
	}
	for _, in := range harness.Infos(nil) {
		for p := range in.Params {
			if in.Name != "ruleguard" && !known[in.Name+"."+p] {
				// a parameter the witness table does not know (added after this check was written): its plumbing
				// is not judged; the generic legs (C01 parameter domain, C05 registry, C06 inertness) still see it
				ev.Cap(fmt.Sprintf("parameter %s.%s has no witness in the table: exactness not judged for it", in.Name, p))
			}
		}
	}
	ref := map[string][2][]string{}
	for _, pc := range c14Params {
		var r [2][]string
		for i, v := range []interface{}{pc.v1, pc.v2} {
			restore := setParam(pc.checker, pc.param, v)
			r[i] = runOne(pc.checker, pk)
			restore()
			ev.Eval(1)
		}
		ref[pc.checker+"."+pc.param] = r
		if equalStrings(r[0], r[1]) {
			// the integrator route itself shows no effect of the parameter
			ev.Violate(evidence.Violation{Key: fmt.Sprintf("%s.%s|integrator|no-effect", pc.checker, pc.param), What: "overriding the registered parameter value before NewChecker has no effect on the witness program",
				Observed: fmt.Sprintf("%s.%s=%v and =%v both give %v", pc.checker, pc.param, pc.v1, pc.v2, r[0]), Replay: map[string]interface{}{"kind": "param", "checker": pc.checker, "param": pc.param}})
		}
	}
	ws := filepath.Join(harness.WorkDir(), "c14ws")
	writeTree(ws, map[string]string{"go.mod": "module w\n\ngo 1.21\n", "w.go": c14Witness, "w_test.go": c14WitnessTest})
	bins := map[string]string{}
	for name, pkg := range map[string]string{"go-critic": "./cmd/go-critic", "gocritic": "./cmd/gocritic", "go-critic-analysis": "./cmd/go-critic-analysis", "gocritic-analysis": "./cmd/gocritic-analysis"} {
		b, err := harness.BuildBin(pkg)
		if err != nil {
			fmt.Fprintln(os.Stderr, err)
			return 2
		}
		bins[name] = b
	}
	var wg sync.WaitGroup
	sem := make(chan struct{}, 12)
	for _, pc := range c14Params {
		for vi, v := range []interface{}{pc.v1, pc.v2} {
			for _, fe := range []string{"go-critic", "gocritic", "go-critic-analysis", "gocritic-analysis"} {
				wg.Add(1)
				sem <- struct{}{}
				go func(pc paramCase, vi int, v interface{}, fe string) {
					defer wg.Done()
					defer func() { <-sem }()
					flag := fmt.Sprintf("-@%s.%s=%v", pc.checker, pc.param, v)
					var a []string
					if strings.HasSuffix(fe, "-analysis") {
						a = []string{"-enable=" + pc.checker, "-disable=", flag, "./..."}
					} else {
						a = []string{"check", "-enable=" + pc.checker, flag, "./..."}
					}
					res := harness.RunCmd(ws, harness.GoEnv(), 3*time.Minute, bins[fe], a...)
					seen := map[string]bool{}
					var got []string
					for _, m := range c14LineRE.FindAllStringSubmatch(res.Stdout+res.Stderr, -1) {
						l := fmt.Sprintf("%s:%s:%s: %s", m[1], m[2], m[3], m[5])
						if m[4] == pc.checker && !seen[l] {
							seen[l] = true
							got = append(got, l)
						}
					}
					sort.Strings(got)
					ev.Eval(1)
					ev.Nontrivial(fmt.Sprintf("route|%s|%s.%s=%v", fe, pc.checker, pc.param, v))
					want := ref[pc.checker+"."+pc.param][vi]
					if !equalStrings(got, want) {
						ev.Violate(evidence.Violation{Key: fmt.Sprintf("%s.%s|%s|value-not-used", pc.checker, pc.param, fe), What: "parameter value given on the command line is not the value the checker uses",
							Observed: fmt.Sprintf("%s %v\n got: %v\nwant (integrator route with the same value): %v\n%s", fe, a, got, want, string(tail([]byte(res.Stderr), 400))),
							Replay:   map[string]interface{}{"kind": "param-route", "frontend": fe, "argv": a}})
					}
				}(pc, vi, v, fe)
			}
		}
	}
	wg.Wait()

	// ------------------------------------------------------------ (b) threshold grids
	c14Grids(ev, tier)

	// ------------------------------------------------------------ (c) sizes in messages vs the platform
	c14Sizes(ev)

	ev.Sample(map[string]interface{}{"plumbing": "hugeParam.sizeThreshold in {80, 8} through integrator override, -@hugeParam.sizeThreshold on go-critic/gocritic, and the analyzer flag on both analysis binaries; witness func hugeP(p [16]byte)"})
	ev.Set("rule", "(a) every registered parameter x {default, witness value} x {integrator override, both CLI binaries, both analyzer binaries} on a witness package whose diagnostics differ between the two values; (b) for each numeric threshold the full grid measure N x threshold T (0..40 each, plus large spot values) on generated programs measuring exactly N; (c) 44 types: size quoted by hugeParam vs unsafe.Sizeof printed by a compiled program. non-trivial = distinct (route, parameter, value) or grid cell")
	return ev.Finish()
}

type gridFamily struct {
	checker, param string
	prog           func(n int) string
	// documented predicate: reported(N,T); nil = unit of the measure not fixed by the usage text
	pred func(n, t int) bool
	doc  string
}

func c14Grids(ev *evidence.Run, tier string) {
	arr := func(n int) string { return fmt.Sprintf("[%d]byte", n) }
	stmts := func(n int) string { return strings.Repeat("\t\t\tprintln(1)\n", n) }
	fams := []gridFamily{
		{"hugeParam", "sizeThreshold", func(n int) string { return "package g\n\nfunc f(p " + arr(n) + ") {}\n" }, func(n, t int) bool { return n >= t }, "size in bytes that makes the warning trigger"},
		{"hugeParam", "sizeThreshold", func(n int) string {
			return "package g\n\ntype R struct{ a " + arr(n) + " }\n\nfunc (r R) m() {}\n"
		}, func(n, t int) bool { return n >= t }, "size in bytes that makes the warning trigger (receiver)"},
		{"rangeValCopy", "sizeThreshold", func(n int) string {
			return "package g\n\nfunc f(xs []" + arr(n) + ") {\n\tfor _, x := range xs {\n\t\t_ = x\n\t}\n}\n"
		}, func(n, t int) bool { return n >= t }, "size in bytes that makes the warning trigger"},
		{"rangeExprCopy", "sizeThreshold", func(n int) string {
			return "package g\n\nfunc f() {\n\tvar xs " + arr(n) + "\n\tfor _, x := range xs {\n\t\t_ = x\n\t}\n}\n"
		}, func(n, t int) bool { return n >= t }, "size in bytes that makes the warning trigger"},
		{"tooManyResultsChecker", "maxResults", func(n int) string {
			if n == 0 {
				return "package g\n\nfunc f() {}\n"
			}
			return "package g\n\nfunc f() (" + strings.TrimSuffix(strings.Repeat("int, ", n), ", ") + ") {\n\tpanic(0)\n}\n"
		}, func(n, t int) bool { return n > t }, "maximum number of results"},
		{"nestingReduce", "bodyWidth", func(n int) string {
			return "package g\n\nfunc f(xs []int) {\n\tfor _, x := range xs {\n\t\tif x > 0 {\n" + stmts(n) + "\t\t}\n\t}\n}\n"
		}, func(n, t int) bool { return n >= t }, "min number of statements inside a branch to trigger a warning"},
		{"ifElseChain", "minThreshold", func(n int) string {
			s := "package g\n\nfunc f(x int) int {\n\tif x == 0 {\n\t\treturn 0\n\t}"
			for i := 1; i <= n; i++ {
				s += fmt.Sprintf(" else if x == %d {\n\t\treturn %d\n\t}", i, i)
			}
			return s + "\n\treturn -1\n}\n"
		}, nil, "min number of if-else blocks that makes the warning trigger (unit not fixed: with or without the leading if)"},
		{"commentedOutCode", "minLength", func(n int) string {
			// a commented-out call whose text has n+5 runes: x(…) with n filler digits
			return "package g\n\nfunc f() {\n\t// x(" + strings.Repeat("1", n+1) + ")\n}\n"
		}, nil, "min length of the comment that triggers a warning (unit not fixed: markers/newline)"},
	}
	ns := []int{}
	for i := 0; i <= 40; i++ {
		ns = append(ns, i)
	}
	extra := []int{63, 64, 65, 79, 80, 81, 127, 128, 129, 255, 256, 257, 511, 512, 513, 1023, 1024, 1025, 4096}
	for fi, fam := range fams {
		nvals := ns
		tvals := append([]int{-1}, ns...)
		if fi < 4 { // byte sizes: add the large spot values
			nvals = append(append([]int{}, ns...), extra...)
			tvals = append(tvals, extra...)
		}
		// load programs once
		progs := map[int]*harness.Pkg{}
		for _, n := range nvals {
			p := harness.LoadOne(fam.prog(n))
			if len(p.Errs) > 0 {
				fmt.Fprintf(os.Stderr, "c14 grid program %s N=%d does not type-check: %v\n", fam.checker, n, p.Errs)
				os.Exit(2)
			}
			progs[n] = p
		}
		rep := map[[2]int]bool{}
		dset := map[[2]int]map[string]bool{} // (N,T) -> positions+texts of the diagnostics
		for _, t := range tvals {
			restore := setParam(fam.checker, fam.param, t)
			set, err := harness.NewSet(harness.Infos([]string{fam.checker}), "")
			restore()
			if err != nil {
				continue
			}
			for _, n := range nvals {
				d, crashes := set.VisitAll(progs[n])
				ev.Eval(1)
				ev.Nontrivial(fmt.Sprintf("grid|%d|%d|%d", fi, n, t))
				if len(crashes) > 0 {
					continue
				}
				rep[[2]int{n, t}] = len(d) > 0
				ds := map[string]bool{}
				for _, x := range d {
					ds[fmt.Sprintf("%d:%d", x.Line, x.Col)] = true
				}
				dset[[2]int{n, t}] = ds
				if fam.pred != nil && (len(d) > 0) != fam.pred(n, t) {
					ev.Violate(evidence.Violation{Key: fmt.Sprintf("%s.%s|boundary|reported=%v,documented=%v", fam.checker, fam.param, len(d) > 0, fam.pred(n, t)),
						What:     fmt.Sprintf("%s: a construct measuring exactly N is not reported at the documented boundary (%s)", fam.checker, fam.doc),
						Observed: fmt.Sprintf("N=%d T=%d reported=%v\n%s", n, t, len(d) > 0, fam.prog(n)),
						Replay:   map[string]interface{}{"kind": "program", "files": map[string]string{"f.go": fam.prog(n)}, "path": "vpkg", "checker": fam.checker, "params": map[string]interface{}{fam.checker + "." + fam.param: t}}})
				}
			}
		}
		// monotonicity (all families) and unit-step flip point (undocumented units)
		sort.Ints(nvals)
		sort.Ints(tvals)
		// set monotonicity: relaxing the threshold (larger T) never adds a diagnostic at any position
		for _, n := range nvals {
			for i := 1; i < len(tvals); i++ {
				stricter, relaxed := dset[[2]int{n, tvals[i-1]}], dset[[2]int{n, tvals[i]}]
				for pos := range relaxed {
					if !stricter[pos] {
						ev.Violate(evidence.Violation{Key: fmt.Sprintf("%s.%s|relaxing-adds-diagnostic", fam.checker, fam.param), What: "relaxing the threshold adds a diagnostic at a place that had none under the stricter value",
							Observed: fmt.Sprintf("N=%d: diagnostic at %s with T=%d but not with T=%d\n%s", n, pos, tvals[i], tvals[i-1], fam.prog(n)),
							Replay:   map[string]interface{}{"kind": "program", "files": map[string]string{"f.go": fam.prog(n)}, "path": "vpkg", "checker": fam.checker, "params": map[string]interface{}{fam.checker + "." + fam.param: tvals[i]}}})
					}
				}
			}
		}
		for _, n := range nvals {
			prev := true
			flips := 0
			for i, t := range tvals {
				r := rep[[2]int{n, t}]
				if i > 0 && r && !prev {
					ev.Violate(evidence.Violation{Key: fmt.Sprintf("%s.%s|not-monotone-in-threshold", fam.checker, fam.param), What: "relaxing the threshold adds a diagnostic (not monotone)", Observed: fmt.Sprintf("N=%d: not reported at T=%d but reported at T=%d", n, tvals[i-1], t), Replay: map[string]interface{}{"checker": fam.checker, "N": n}})
				}
				if i > 0 && r != prev {
					flips++
				}
				prev = r
			}
			_ = flips
		}
		for _, t := range tvals {
			prev := false
			for i, n := range nvals {
				r := rep[[2]int{n, t}]
				if i > 0 && prev && !r {
					ev.Violate(evidence.Violation{Key: fmt.Sprintf("%s.%s|not-monotone-in-measure", fam.checker, fam.param), What: "a larger construct is not reported although a smaller one is (not monotone)", Observed: fmt.Sprintf("T=%d: reported at N=%d but not at N=%d", t, nvals[i-1], n), Replay: map[string]interface{}{"checker": fam.checker, "T": t}})
				}
				prev = r
			}
		}
		if fam.pred == nil {
			// flip point T*(N) = largest T that still reports; must grow by exactly one per unit of N
			last := -100
			for _, n := range nvals {
				star := -100
				for _, t := range tvals {
					if rep[[2]int{n, t}] {
						star = t
					}
				}
				if star == tvals[len(tvals)-1] || star == -100 {
					last = -100
					continue // saturated / never reported inside the window
				}
				if last != -100 && star != last+1 {
					ev.Violate(evidence.Violation{Key: fmt.Sprintf("%s.%s|flip-point-step", fam.checker, fam.param), What: "the threshold at which a construct stops being reported does not move by one when the construct grows by one", Observed: fmt.Sprintf("N=%d flips at T=%d, N=%d flips at T=%d", n-1, last, n, star), Replay: map[string]interface{}{"checker": fam.checker}})
				}
				last = star
			}
		}
		for _, p := range progs {
			p.Release()
		}
	}
}

func c14Sizes(ev *evidence.Run) {
	types := []string{
		"bool", "int8", "int16", "int32", "int64", "int", "uint", "uintptr", "float32", "float64", "complex64", "complex128", "string", "[]int", "map[int]int", "chan int", "func()", "interface{}", "error", "*int",
		"[3]int16", "[0]int", "struct{}", "[5]struct{}", "struct{ a bool; b int64 }", "struct{ a bool; b bool; c int32 }", "struct{ a int8; b int64; c int8 }", "struct{ a int64; b int8; c int8 }",
		"struct{ a byte; b [0]int64 }", "struct{ a [0]int64; b byte }", "struct{ a struct{ x int8; y int32 }; b int8 }", "[3]struct{ a int8; b int32 }", "struct{ s string; e error; f func() }",
		"struct{ a, b, c, d, e, f, g, h, i, j int64 }", "[2][3]int32", "struct{ a complex64; b bool }", "struct{ a [3]byte; b int16 }", "struct{ p *int; b byte }", "struct{ a float32; b float64; c float32 }",
		"struct{ a int32; b struct{} }", "struct{ a struct{}; b int32 }", "[100]byte", "struct{ a [7]byte; b int8; c [3]int16 }", "struct{ m map[string]int; c chan int; s []byte }",
	}
	// checker side
	var src strings.Builder
	src.WriteString("package g\n\n")
	for i, t := range types {
		fmt.Fprintf(&src, "type T%d %s\n\nfunc f%d(p T%d) {}\n\n", i, t, i, i)
	}
	pk := harness.LoadOne(src.String())
	if len(pk.Errs) > 0 {
		fmt.Fprintln(os.Stderr, "c14 sizes program:", pk.Errs)
		os.Exit(2)
	}
	restore := setParam("hugeParam", "sizeThreshold", 0)
	set, err := harness.NewSet(harness.Infos([]string{"hugeParam"}), "")
	restore()
	if err != nil {
		fmt.Fprintln(os.Stderr, err)
		os.Exit(2)
	}
	d, _ := set.VisitAll(pk)
	quoted := map[int]int64{}
	re := regexp.MustCompile(`\((\d+) bytes\)`)
	for _, x := range d {
		m := re.FindStringSubmatch(x.Text)
		if m == nil {
			continue
		}
		n, _ := strconv.ParseInt(m[1], 10, 64)
		// line -> type index: func fI is on line 5+4*i? compute from source instead
		idx := -1
		lines := strings.Split(src.String(), "\n")
		if x.Line-1 < len(lines) {
			fmt.Sscanf(strings.TrimSpace(lines[x.Line-1]), "func f%d(", &idx)
		}
		if idx >= 0 {
			quoted[idx] = n
		}
	}
	// platform side: a compiled program
	dir := filepath.Join(harness.WorkDir(), "c14sizes")
	var prog strings.Builder
	prog.WriteString("package main\n\nimport (\n\t\"fmt\"\n\t\"unsafe\"\n)\n\n")
	for i, t := range types {
		fmt.Fprintf(&prog, "type T%d %s\n", i, t)
	}
	prog.WriteString("\nfunc main() {\n")
	for i := range types {
		fmt.Fprintf(&prog, "\t{ var v T%d; fmt.Println(%d, unsafe.Sizeof(v)) }\n", i, i)
	}
	prog.WriteString("}\n")
	writeTree(dir, map[string]string{"go.mod": "module sizes\n\ngo 1.21\n", "main.go": prog.String()})
	res := harness.RunCmd(dir, harness.GoEnv(), 5*time.Minute, "go", "run", ".")
	if res.Exit != 0 {
		fmt.Fprintln(os.Stderr, "c14 sizes: go run failed:", res.Stderr)
		os.Exit(2)
	}
	real := map[int]int64{}
	for _, l := range strings.Split(res.Stdout, "\n") {
		var i int
		var n int64
		if _, err := fmt.Sscan(l, &i, &n); err == nil {
			real[i] = n
		}
	}
	for i, t := range types {
		ev.Eval(1)
		ev.Nontrivial("size|" + t)
		q, ok := quoted[i]
		if !ok {
			if real[i] == 0 {
				continue // size 0 >= threshold 0 is reported too; tolerate absence only for zero-size types
			}
			ev.Violate(evidence.Violation{Key: "hugeParam|size-not-quoted", What: "no size quoted for a parameter type although the threshold is 0", Observed: t, Replay: map[string]interface{}{"type": t}})
			continue
		}
		if q != real[i] {
			ev.Violate(evidence.Violation{Key: "hugeParam|size-differs-from-platform", What: "byte size quoted in the message differs from unsafe.Sizeof on this platform", Observed: fmt.Sprintf("type %s: message says %d bytes, unsafe.Sizeof = %d", t, q, real[i]), Replay: map[string]interface{}{"type": t}})
		}
	}
	ev.Set("size_types", len(types))
}

package main

import (
	"fmt"
	"sort"

	"verif/mc/internal/harness"
)

func init() { register("selftest", selftest) }

// driftCheck verifies the harness reproduces every testdata expectation (as TestCheckers does).
// Returns a list of mismatches.
func driftCheck() (mismatch []string, nfiles, nwarn int) {
	infos := harness.Infos(nil)
	harness.ApplyParams(infos, harness.TestParams)
	defer harness.ApplyParams(harness.Infos(nil), map[string]map[string]interface{}{}) // no-op; params restored by caller if needed
	byName := map[string]bool{}
	for _, in := range infos {
		byName[in.Name] = true
	}
	for _, name := range harness.TestdataNames() {
		if !byName[name] {
			continue
		}
		pkgs, err := harness.LoadTestdata(name)
		if err != nil {
			mismatch = append(mismatch, fmt.Sprintf("%s: load: %v", name, err))
			continue
		}
		for _, p := range pkgs {
			if len(p.Errs) > 0 && name != "caseOrder" {
				mismatch = append(mismatch, fmt.Sprintf("%s: type errors: %v", name, p.Errs[0]))
				continue
			}
			set, err := harness.NewSet(harness.Infos([]string{name}), "")
			if err != nil {
				mismatch = append(mismatch, fmt.Sprintf("%s: %v", name, err))
				continue
			}
			for i, fname := range p.Names {
				nfiles++
				diags, crashes := set.Visit(p, i, i == 0)
				for _, c := range crashes {
					mismatch = append(mismatch, fmt.Sprintf("%s/%s: crash %s", name, fname, c.Value))
				}
				exp := harness.Expectations(p.Src[fname])
				used := map[string]int{}
				for _, d := range diags {
					nwarn++
					key := fmt.Sprintf("%d:%s", d.Line, d.Text)
					used[key]++
				}
				want := map[string]int{}
				for line, texts := range exp {
					for _, t := range texts {
						want[fmt.Sprintf("%d:%s", line, t)]++
					}
				}
				for k, n := range want {
					if used[k] != n {
						mismatch = append(mismatch, fmt.Sprintf("%s/%s: expected %q x%d got x%d", name, fname, k, n, used[k]))
					}
				}
				for k, n := range used {
					if want[k] == 0 {
						mismatch = append(mismatch, fmt.Sprintf("%s/%s: unexpected %q x%d", name, fname, k, n))
					}
				}
			}
		}
	}
	sort.Strings(mismatch)
	return
}

func selftest(args []string) int {
	mm, nf, nw := driftCheck()
	fmt.Printf("files=%d warnings=%d mismatches=%d\n", nf, nw, len(mm))
	for _, m := range mm {
		fmt.Println("  ", m)
	}
	if len(mm) > 0 {
		return 2
	}
	return 0
}

package main

import (
	"encoding/json"
	"fmt"
	"os"
	"regexp"
	"sort"
	"strings"
	"sync"

	"verif/mc/internal/evidence"
	"verif/mc/internal/harness"
	"verif/mc/internal/progenum"
)

func init() {
	register("C01", func(a []string) int { return runProgramChecks("C01", a) })
	register("C07", func(a []string) int { return runProgramChecks("C07", a) })
}

var panicClassRE = regexp.MustCompile(`\[?-?\d+[:\]]?|0x[0-9a-f]+|with (length|capacity) \d+`)

// panicClass abstracts a panic value to its kind (indices and addresses removed).
func panicClass(v string) string {
	v = panicClassRE.ReplaceAllString(v, "N")
	if i := strings.Index(v, "\n"); i >= 0 {
		v = v[:i]
	}
	if len(v) > 80 {
		v = v[:80]
	}
	return v
}

// the corpus shared by C01 and C07 (and the first leg of C20)
func programCorpus(tier string) func(emit func(progenum.Prog)) {
	quick := tier == "quick"
	return func(emit func(progenum.Prog)) {
		testdataProgs(emit)
		progenum.Odd(emit)
		progenum.Empties(emit)
		progenum.EmbedGraphs(2, 3, emit)
		progenum.TypeShapes(emit)
		progenum.Shadow(quick, emit)
		if quick {
			progenum.Comments(1, emit)
			progenum.Strings(2, 48, emit)
			mutantProgs(quickMutOps, nil)(emit)
			mutantPairProgs(quickMutOps, 0, nil)(emit)
		} else {
			progenum.Comments(2, emit)
			progenum.Strings(3, 48, emit)
			mutantProgs(nil, nil)(emit)
			mutantPairProgs(nil, 2, nil)(emit)
		}
	}
}

// operators used in the quick tier (the ones aimed at the shortcuts named in the property text)
var quickMutOps = map[string]bool{
	"dropArgs": true, "dupArg": true, "dropLastArg": true, "dropFirstArg": true, "multiArgs": true, "addEllipsis": true, "delEllipsis": true,
	"parenFun": true, "parenRecv": true, "parenRecvStar": true, "parenType": true, "dropRecvName": true,
	"bareReturn": true, "blankIdent": true, "emptyBody": true, "panicBody": true, "noBody": true, "addTypeParam": true,
	"emptySwitch": true, "emptyStruct": true, "emptyGenDecl": true, "emptyLit": true, "emptyCaseBody": true, "caseToDefault": true,
	"rangeNoVars": true, "dropIfInit": true, "dropElse": true, "emptyString": true, "constInSiblingFile": true, "doubleParen": true,
}

func runProgramChecks(prop string, args []string) int {
	if len(args) >= 2 && args[0] == "--replay" {
		return replayProgram(prop, args[1])
	}
	ev := evidence.New(prop, "exploration")
	tier := evidence.Tier()
	harness.Init()
	enableUserRules()

	var srcCache sync.Map // filename -> tokenStarts
	type famStat struct{ diags, crashes int }
	var mu sync.Mutex
	diagCount := 0
	checkerSeen := map[string]bool{}

	handle := func(r *caseResult) {
		ev.Eval(1)
		if len(r.diags) > 0 || len(r.crashes) > 0 {
			ev.Nontrivial(r.prog.ID)
		}
		mu.Lock()
		diagCount += len(r.diags)
		for _, d := range r.diags {
			checkerSeen[d.Checker] = true
		}
		mu.Unlock()
		switch prop {
		case "C01":
			if r.hang {
				if confirmHang(r.prog) {
					ev.Violate(evidence.Violation{Key: "hang|" + r.prog.Fam, What: "analysis of a well-typed program does not finish (3 solo re-runs of 120 s each timed out)", Observed: r.prog.ID, Replay: progReplay(r.prog, "")})
				} else {
					ev.Cap("watchdog expired once for " + r.prog.ID + " but the solo re-run finished; not counted")
				}
				return
			}
			for _, c := range r.crashes {
				key := fmt.Sprintf("%s|%s|%s", c.Checker, c.Frame, panicClass(c.Value))
				ev.Violate(evidence.Violation{Key: key, What: fmt.Sprintf("checker %s panics on a well-typed program (%s in %s)", c.Checker, panicClass(c.Value), c.Frame),
					Observed: c.Value + "\n" + trimStack(c.Stack), Replay: progReplay(r.prog, c.Checker)})
			}
		case "C07":
			for _, d := range r.diags {
				c07Oracle(ev, r, d, &srcCache)
			}
		}
	}
	st := runCorpus(programCorpus(tier), runOpts{allowErrors: allowCaseOrder}, handle)

	// user rules whose object/value filters are applied to arbitrary sub-matches (C01 only; separate leg so that
	// a crash inside one filter does not shadow the other filter kinds of the main run)
	if prop == "C01" {
		var ran int64
		for i := 1; i <= 6; i++ {
			enableUserRules(fmt.Sprintf("filters_u%d.go", i))
			st2 := runCorpus(func(emit func(progenum.Prog)) {
				testdataProgs(emit)
				progenum.Odd(func(p progenum.Prog) {
					if !strings.Contains(p.ID, "+") {
						emit(p)
					}
				})
				progenum.Empties(emit)
			}, runOpts{allowErrors: allowCaseOrder, checkers: []string{"ruleguard"}}, handle)
			ran += st2.ran
		}
		ev.Set("programs_run_with_unguarded_user_rules", ran)
		enableUserRules()
	}

	// first-contact leg (C01 only): every example and every odd snippet alone is the *first* file a freshly
	// constructed set of the hand-written checkers ever sees (per-function scratch state of a checker is
	// still in its constructed state; on the long-lived sets above it was initialised by an earlier file)
	if prop == "C01" {
		var hand []string
		for _, in := range harness.Infos(nil) {
			if !in.EmbeddedRuleguard && in.Name != "ruleguard" {
				hand = append(hand, in.Name)
			}
		}
		st3 := runCorpus(func(emit func(progenum.Prog)) {
			testdataProgs(emit)
			progenum.Odd(func(p progenum.Prog) {
				if !strings.Contains(p.ID, "+") {
					emit(p)
				}
			})
		}, runOpts{allowErrors: allowCaseOrder, noVisit: true}, func(r *caseResult) {
			set, err := harness.NewSet(harness.Infos(hand), "")
			if err != nil {
				return
			}
			r.diags, r.crashes, r.hang = set.VisitAllWatchdog(r.pkg)
			r.prog.ID = "first-contact|" + r.prog.ID
			handle(r)
		})
		ev.Set("programs_run_as_first_contact_of_fresh_sets", st3.ran)
	}

	// parameter leg (C01 only): every parameter value of the small domain, one parameter at a time
	if prop == "C01" {
		c01Params(ev, tier)
	}

	fams := map[string]interface{}{}
	for f, v := range st.perFam {
		fams[f] = map[string]int64{"generated": v[0], "well_typed_and_run": v[1]}
	}
	ev.Set("families", fams)
	ev.Set("programs_generated", st.generated)
	ev.Set("programs_ill_typed_dropped", st.illTyped)
	ev.Set("programs_run", st.ran)
	ev.Set("checkers_per_program", len(harness.Infos(nil)))
	ev.Set("diagnostics_seen", diagCount)
	ev.Set("checkers_that_reported", len(checkerSeen))
	if !checkerSeen["ruleguard"] {
		fmt.Fprintln(os.Stderr, prop+": the user-rules fixture (fixtures/rules/filters.go) produced no diagnostic on the whole corpus (broken check)")
		return 2
	}
	ev.Sample(map[string]interface{}{"id": "shadowB|append|pkgfunc|s0||xs = %s", "source": progenum.ShadowBuiltin("append", "pkgfunc", progenum.Sigs[3], "", "xs = %s").Files[0].Src})
	ev.Sample(map[string]interface{}{"id": "mutant example", "op": "bareReturn", "note": "testdata function with its results named and `return a, b` turned into `r0, r1 = a, b; return`"})
	ev.Set("rule", "every program of: maintainers' examples; odd-syntax snippets alone and in ordered pairs; full product name x declaration kind x signature x argument shape x statement context of the shadow family (quick: pairwise reduction on non-first declaration kinds); comment texts start x alphabet^<=k in 7 positions; string constants tokens^<=n; all 1-deviation mutants of the examples (quick: the operator subset aimed at the property's shortcuts); all 2-deviation mutants whose two sites lie in the same top-level declaration at most 2 source lines apart with disjoint edits (quick: same line, operator subset). Ill-typed candidates are dropped by go/types. Each surviving program is analysed by all registered checkers on long-lived instances. non-trivial = program on which some checker reported or crashed")
	if tier == "quick" {
		ev.Cap("quick tier: reduced contexts for non-first declaration kinds, comment depth 1, string depth 2, mutation operator subset, 2-deviation mutants on the same line only")
	}
	return ev.Finish()
}

func trimStack(s string) string {
	lines := strings.Split(s, "\n")
	var out []string
	for _, l := range lines {
		if strings.Contains(l, "go-critic") || strings.Contains(l, "go-toolsmith") || strings.Contains(l, "ruleguard") || strings.HasPrefix(l, "panic(") {
			out = append(out, l)
		}
		if len(out) > 12 {
			break
		}
	}
	return strings.Join(out, "\n")
}

// c01Params runs each parameterised checker with each value of a small domain over its own examples
// and the odd family. Parameter values are process-global registry state, so this leg is sequential.
func c01Params(ev *evidence.Run, tier string) {
	infos := harness.Infos(nil)
	var corpus []progenum.Prog
	progenum.Odd(func(p progenum.Prog) {
		if !strings.Contains(p.ID, "+") {
			corpus = append(corpus, p)
		}
	})
	progenum.Empties(func(p progenum.Prog) { corpus = append(corpus, p) })
	tdByChecker := map[string][]progenum.Prog{}
	testdataProgs(func(p progenum.Prog) { tdByChecker[p.Meta["checker"]] = append(tdByChecker[p.Meta["checker"]], p) })
	nvals := 0
	for _, info := range infos {
		if len(info.Params) == 0 || info.Name == "ruleguard" {
			continue
		}
		var pnames []string
		for k := range info.Params {
			pnames = append(pnames, k)
		}
		sort.Strings(pnames)
		for _, pn := range pnames {
			orig := info.Params[pn].Value
			var domain []interface{}
			switch orig.(type) {
			case int:
				domain = []interface{}{-1, 0, 1, 2, 1<<31 - 1, -(1 << 31)}
			case bool:
				domain = []interface{}{true, false}
			case string:
				domain = []interface{}{"", " ", "x,y"}
			}
			for _, v := range domain {
				nvals++
				info.Params[pn].Value = v
				set, err := harness.NewSet(harness.Infos([]string{info.Name}), "")
				if err != nil {
					// a constructor may reject a value with an error: that is a clean outcome
					continue
				}
				progs := append(append([]progenum.Prog{}, tdByChecker[info.Name]...), corpus...)
				for i := range progs {
					p := &progs[i]
					pk := harness.Load(p.Path, p.Files)
					if len(pk.Errs) > 0 && !allowCaseOrder(p) {
						pk.Release()
						continue
					}
					_, crashes, hang := set.VisitAllWatchdog(pk)
					ev.Eval(1)
					if hang {
						ev.Violate(evidence.Violation{Key: fmt.Sprintf("hang|param|%s.%s", info.Name, pn), What: "checker does not finish under a parameter value", Observed: fmt.Sprintf("%s.%s=%v on %s", info.Name, pn, v, p.ID), Replay: progReplay(p, info.Name)})
						break
					}
					for _, c := range crashes {
						rp := progReplay(p, c.Checker)
						rp["params"] = map[string]interface{}{info.Name + "." + pn: v}
						ev.Violate(evidence.Violation{Key: fmt.Sprintf("%s|%s|%s|param", c.Checker, c.Frame, panicClass(c.Value)), What: fmt.Sprintf("checker %s panics with parameter %s=%v", c.Checker, pn, v), Observed: c.Value + "\n" + trimStack(c.Stack), Replay: rp})
					}
					pk.Release()
				}
			}
			info.Params[pn].Value = orig
		}
	}
	ev.Set("parameter_values_tried", nvals)
}

func replayProgram(prop, file string) int {
	installFakeResolver()
	harness.Init()
	enableUserRules("filters.go", "filters_u1.go", "filters_u2.go", "filters_u3.go", "filters_u4.go", "filters_u5.go", "filters_u6.go")
	p, checker, err := loadReplayProg(file)
	if err != nil {
		fmt.Fprintln(os.Stderr, err)
		return 2
	}
	var raw struct {
		Key string `json:"key"`
	}
	data, _ := os.ReadFile(file)
	json.Unmarshal(data, &raw)
	var names []string
	if checker != "" && checker != "SetFileInfo" {
		names = []string{checker}
	}
	pk := harness.Load(p.Path, p.Files)
	set, err := harness.NewSet(harness.Infos(names), "")
	if err != nil {
		fmt.Fprintln(os.Stderr, err)
		return 2
	}
	diags, crashes := set.VisitAll(pk)
	bad := false
	switch prop {
	case "C01":
		for _, c := range crashes {
			fmt.Printf("still crashes: %s: %s at %s\n", c.Checker, c.Value, c.Frame)
			bad = true
		}
	case "C07":
		ev := evidence.New("C07", "exploration")
		var cache sync.Map
		r := &caseResult{prog: p, pkg: pk, diags: diags}
		for _, d := range diags {
			c07Oracle(ev, r, d, &cache)
		}
		if ev.ViolationKeys()[raw.Key] {
			fmt.Println("still violates:", raw.Key)
			bad = true
		}
	}
	if bad {
		fmt.Printf("VIOLATION property=%s replay=%s\n", prop, file)
		return 1
	}
	fmt.Println("replay: property holds on this case now")
	return 0
}

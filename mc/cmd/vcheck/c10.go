package main

import (
	"fmt"
	"os"
	"regexp"
	"strings"
	"sync"

	"verif/mc/internal/evidence"
	"verif/mc/internal/gorun"
	"verif/mc/internal/harness"
)

func init() { register("C10", c10) }

// checkers whose diagnostics state that code can be simplified/rewritten without changing meaning
var c10Checkers = map[string]bool{"boolExprSimplify": true, "assignOp": true, "emptyStringTest": true, "stringXbytes": true, "sloppyLen": true, "unslice": true, "underef": true,
	"typeUnparen": true, "unlambda": true, "deferUnlambda": true, "redundantSprint": true, "valSwap": true, "switchTrue": true, "wrapperFunc": true, "yodaStyleExpr": true,
	"stringsCompare": true, "newDeref": true, "timeExprSimplify": true}

type c10Tmpl struct {
	Family string
	Types  string // short label of the operand types
	Params []c10Param
	Result string
	Body   string // statements; must end in a return when Result != ""
	Decls  string // extra package-level declarations the body needs (use %s for a unique prefix)
}

type c10Param struct{ Name, Type string }

var c10Grids = map[string]string{
	"int":     "[]int{-2, -1, 0, 1, 2, 7, 8, 9, 10, 11}",
	"uint8":   "[]uint8{1, 2, 8, 9, 10, 200}", // away from 0 and 255: the property lets integer reasoning assume no overflow
	"float64": "[]float64{math.NaN(), math.Inf(-1), -1.5, math.Copysign(0, -1), 0, 0.5, 1, 1.5, 2, math.Inf(1)}",
	"celsius": "[]celsius{celsius(math.NaN()), -1.5, 0, 0.5, 1, 1.5, 2, celsius(math.Inf(1))}",
	"string":  "[]string{\"\", \"a\", \"A\", \"ab\", \"b\", \"=\", \"a=b\", \"a==b=c\", \"==\"}",
	"mystr":   "[]mystr{\"\", \"a\", \"ab\", \"a=b\"}",
	"errstr":  "[]errstr{\"\", \"E42\"}",
	"fmtstr":  "[]fmtstr{\"\", \"hunter2\"}",
	"gostr":   "[]gostr{\"\", \"x\"}",
	"[]byte":  "[][]byte{nil, {}, []byte(\"a\"), []byte(\"ab\"), []byte(\"a=b\")}",
	"bool":    "[]bool{false, true}",
	"*pt":     "[]*pt{nil, {1, [2]int{3, 4}}}",
	"*pstr":   "[]*pstr{nil, {\"x\"}}",
	"[]int":   "[][]int{nil, {}, {1}, {1, 2}}",
	"time":    "[]time.Time{time.Unix(0, 0), time.Unix(1, 999999999), time.Unix(1700000000, 123456789), time.Unix(-5, 500)}",
	"fn":      "[]func(int) int{func(x int) int { tr(\"f1\"); return x + 1 }}",
}

const c10Common = `
type celsius float64
type mystr string
type pt struct {
	x int
	a [2]int
}

func (p *pt) get() int { return p.x }

type pstr struct{ s string }

func (p *pstr) String() string { return "P:" + p.s }

type errstr string

func (e errstr) Error() string { return "error code " + string(e) }

type fmtstr string

func (f fmtstr) Format(st fmt.State, verb rune) { fmt.Fprint(st, "****") }

type gostr string

func (g gostr) GoString() string { return "GO" }

type codec struct{ encode func(int) int }

var pkgfn = func(x int) int { return x + 1 }

func g(k int) int { tr(fmt.Sprint("g", k)); return k }
func gs(s string) string { tr("gs" + s); return s }
func gf(f float64) float64 { tr("gf"); return f }
`

func c10Templates() []c10Tmpl {
	var ts []c10Tmpl
	add := func(t c10Tmpl) { ts = append(ts, t) }
	num := []string{"int", "uint8", "float64", "celsius"}
	ord := []string{"int", "float64", "celsius", "string"}
	// ---- boolExprSimplify
	for _, ty := range ord {
		for _, op := range []string{"==", "!=", "<", "<=", ">", ">="} {
			add(c10Tmpl{Family: "negated-comparison", Types: ty, Params: []c10Param{{"a", ty}, {"b", ty}}, Result: "bool", Body: "return !(a " + op + " b)"})
		}
	}
	add(c10Tmpl{Family: "double-negation", Types: "bool", Params: []c10Param{{"a", "bool"}}, Result: "bool", Body: "return !!a"})
	add(c10Tmpl{Family: "negated-and", Types: "int", Params: []c10Param{{"a", "int"}, {"b", "int"}}, Result: "bool", Body: "return !(a == 1 && b != 2)"})
	add(c10Tmpl{Family: "negated-or-float", Types: "float64", Params: []c10Param{{"a", "float64"}, {"b", "float64"}}, Result: "bool", Body: "return !(a < 1 || b >= 2)"})
	for _, ty := range num {
		for _, lits := range [][2]string{{"0", "1"}, {"8", "9"}, {"010", "011"}, {"0x8", "0x9"}, {"0o10", "0o11"}, {"1", "3"}, {"9", "10"}} {
			if ty == "uint8" && strings.HasPrefix(lits[0], "-") {
				continue
			}
			add(c10Tmpl{Family: "range-fold(a>x&&a<=y)", Types: ty + " " + lits[0] + ".." + lits[1], Params: []c10Param{{"a", ty}}, Result: "bool", Body: fmt.Sprintf("return a > %s && a <= %s", lits[0], lits[1])})
			add(c10Tmpl{Family: "range-fold(a>=x&&a<y)", Types: ty + " " + lits[0] + ".." + lits[1], Params: []c10Param{{"a", ty}}, Result: "bool", Body: fmt.Sprintf("return a >= %s && a < %s", lits[0], lits[1])})
			add(c10Tmpl{Family: "range-fold(a<y&&a>=x)", Types: ty + " " + lits[0] + ".." + lits[1], Params: []c10Param{{"a", ty}}, Result: "bool", Body: fmt.Sprintf("return a < %s && a >= %s", lits[1], lits[0])})
		}
		for _, e := range []string{"a+1 > b", "a+1 >= b", "a-1 < b", "a-1 >= b", "a+1 <= b", "a > b+1", "a >= b-1", "a+1 == b+1"} {
			add(c10Tmpl{Family: "incdec-comparison", Types: ty, Params: []c10Param{{"a", ty}, {"b", ty}}, Result: "bool", Body: "return " + e})
		}
	}
	// every pair of comparisons of the same two operands joined by || and && (all 36 operator pairs), and the
	// same against one constant, over int, float (NaN in the grid) and string operands
	cmpOps := []string{"==", "!=", "<", "<=", ">", ">="}
	for _, ty := range []string{"int", "float64", "celsius", "string"} {
		for _, o1 := range cmpOps {
			for _, o2 := range cmpOps {
				for _, j := range []string{"||", "&&"} {
					add(c10Tmpl{Family: "comparison-pair(a.b" + j + "a.b)", Types: ty + " " + o1 + j + o2, Params: []c10Param{{"a", ty}, {"b", ty}}, Result: "bool", Body: fmt.Sprintf("return a %s b %s a %s b", o1, j, o2)})
					add(c10Tmpl{Family: "comparison-pair(a.b" + j + "b.a)", Types: ty + " " + o1 + j + o2, Params: []c10Param{{"a", ty}, {"b", ty}}, Result: "bool", Body: fmt.Sprintf("return a %s b %s b %s a", o1, j, o2)})
					if ty != "string" {
						add(c10Tmpl{Family: "comparison-pair(a.c" + j + "a.c)", Types: ty + " " + o1 + j + o2, Params: []c10Param{{"a", ty}}, Result: "bool", Body: fmt.Sprintf("return a %s 2 %s a %s 2", o1, j, o2)})
					}
				}
			}
		}
	}
	// a simplifiable float comparison below a call or a function literal, inside a boolean expression that has
	// no float operand of its own
	for _, ty := range []string{"float64", "celsius", "int"} {
		inners := []string{"!(a > b)", "!(a >= b)", "!(a < b)", "!(a == b)", "a+1 > b", "a-1 < b", "a >= 1 && a < 2", "!(a < 1 || b >= 2)"}
		for _, in := range inners {
			for wi, w := range []string{"!k && acc(%s)", "k || acc(%s)", "!acc(%s)", "!k == acc(%s)", "k || !ev(func() bool { return %s })", "!ev(func() bool { return %s }) && k"} {
				add(c10Tmpl{Family: fmt.Sprintf("nested-under-call#%d", wi), Types: ty + " " + in, Params: []c10Param{{"a", ty}, {"b", ty}, {"k", "bool"}}, Result: "bool",
					Body: "acc := func(v bool) bool { return v }\n\tev := func(f func() bool) bool { return f() }\n\t_, _ = acc, ev\n\treturn " + fmt.Sprintf(w, in)})
			}
		}
	}
	add(c10Tmpl{Family: "impure-negated-comparison", Types: "int", Params: []c10Param{{"a", "int"}}, Result: "bool", Body: "return !(g(a) == g(a+1))"})
	add(c10Tmpl{Family: "bool-literal-comparison", Types: "bool", Params: []c10Param{{"a", "bool"}}, Result: "bool", Body: "return !(a == true) || !(a != false)"})
	// ---- assignOp
	for _, ty := range []string{"int", "uint8", "float64", "celsius", "string", "mystr"} {
		ops := []string{"+", "-", "*", "/"}
		if ty == "int" || ty == "uint8" {
			ops = append(ops, "%", "&", "|", "^", "<<", ">>", "&^")
		}
		if ty == "string" || ty == "mystr" {
			ops = []string{"+"}
		}
		for _, op := range ops {
			add(c10Tmpl{Family: "x=x-op-y", Types: ty + op, Params: []c10Param{{"x", ty}, {"y", ty}}, Result: ty, Body: "x = x " + op + " y\n\treturn x"})
			add(c10Tmpl{Family: "x=y-op-x", Types: ty + op, Params: []c10Param{{"x", ty}, {"y", ty}}, Result: ty, Body: "x = y " + op + " x\n\treturn x"})
		}
	}
	add(c10Tmpl{Family: "x=x+1", Types: "int", Params: []c10Param{{"x", "int"}}, Result: "int", Body: "x = x + 1\n\tx = x - 1\n\tx = x + 1\n\treturn x"})
	add(c10Tmpl{Family: "indexed-assign-impure", Types: "int", Params: []c10Param{{"k", "int"}}, Result: "int", Body: "xs := []int{1, 2, 3}\n\tk = (k%3 + 3) % 3\n\txs[g(k)] = xs[g(k)] + 2\n\treturn xs[0] + 10*xs[1] + 100*xs[2]"})
	// ---- emptyStringTest / sloppyLen / stringXbytes
	for _, ty := range []string{"string", "mystr"} {
		for _, e := range []string{"len(s) == 0", "len(s) != 0", "len(s) > 0", "len(s) <= 0", "len(s) < 1", "0 == len(s)", "len(s) >= 1"} {
			add(c10Tmpl{Family: "len-of-string-test", Types: ty, Params: []c10Param{{"s", ty}}, Result: "bool", Body: "return " + e})
		}
	}
	add(c10Tmpl{Family: "len-of-slice-le0", Types: "[]int", Params: []c10Param{{"s", "[]int"}}, Result: "bool", Body: "return len(s) <= 0"})
	for _, e := range []string{"string(b) == string(c)", "string(b) != string(c)", "len(string(b)) == 0", "string(b) == \"\""} {
		add(c10Tmpl{Family: "bytes-string-comparison", Types: "[]byte", Params: []c10Param{{"b", "[]byte"}, {"c", "[]byte"}}, Result: "bool", Body: "return " + e})
	}
	add(c10Tmpl{Family: "bytes-vs-string-comparison", Types: "[]byte,string", Params: []c10Param{{"b", "[]byte"}, {"s", "string"}}, Result: "bool", Body: "return string(b) != s || string(b) == s"})
	add(c10Tmpl{Family: "bytes-vs-mystr-comparison", Types: "[]byte,mystr", Params: []c10Param{{"b", "[]byte"}, {"m", "mystr"}}, Result: "bool", Body: "return string(b) != string(m)"})
	add(c10Tmpl{Family: "copy-from-bytes-conversion", Types: "string", Params: []c10Param{{"s", "string"}}, Result: "string", Body: "buf := make([]byte, 3)\n\tn := copy(buf, []byte(s))\n\treturn fmt.Sprint(n, buf)"})
	// ---- unslice / underef / newDeref
	add(c10Tmpl{Family: "unslice-slice", Types: "[]int", Params: []c10Param{{"s", "[]int"}}, Result: "string", Body: "t := s[:]\n\treturn fmt.Sprint(t == nil, len(t), cap(t))"})
	add(c10Tmpl{Family: "unslice-string", Types: "string", Params: []c10Param{{"s", "string"}}, Result: "string", Body: "return s[:] + s[:][:]"})
	add(c10Tmpl{Family: "unslice-copy-arg", Types: "[]int", Params: []c10Param{{"s", "[]int"}}, Result: "int", Body: "d := make([]int, 1)\n\treturn copy(d[:], s[:])"})
	add(c10Tmpl{Family: "underef-field", Types: "*pt", Params: []c10Param{{"p", "*pt"}}, Result: "int", Body: "return (*p).x + (*p).a[1]"})
	add(c10Tmpl{Family: "underef-method", Types: "*pt", Params: []c10Param{{"p", "*pt"}}, Result: "int", Body: "return (*p).get()"})
	add(c10Tmpl{Family: "underef-array-index", Types: "int", Params: []c10Param{{"k", "int"}}, Result: "int", Body: "a := [3]int{1, 2, 3}\n\tp := &a\n\treturn (*p)[(k%3+3)%3]"})
	for _, ty := range []string{"int", "float64", "string", "bool", "celsius", "mystr", "[2]int", "pt", "*int", "[]int", "map[int]int", "uint8", "complex128", "func()"} {
		add(c10Tmpl{Family: "new-deref", Types: ty, Params: []c10Param{{"k", "int"}}, Result: "string", Body: "v := *new(" + ty + ")\n\treturn fmt.Sprintf(\"%T %#v %d\", v, v, k)"})
	}
	// ---- unlambda / deferUnlambda
	add(c10Tmpl{Family: "unlambda-pkgfunc", Types: "int", Params: []c10Param{{"k", "int"}}, Result: "int", Body: "fn := func(x int) int { return g(x) }\n\treturn fn(k)"})
	add(c10Tmpl{Family: "unlambda-funcvar-reassigned", Types: "int", Params: []c10Param{{"k", "int"}}, Result: "int", Body: "f := func(x int) int { return x + 1 }\n\tfn := func(x int) int { return f(x) }\n\tf = func(x int) int { return x + 100 }\n\treturn fn(k)"})
	add(c10Tmpl{Family: "unlambda-method-value", Types: "*pt", Params: []c10Param{{"p", "*pt"}}, Result: "int", Body: "fn := func() int { return p.get() }\n\tif p == nil {\n\t\treturn -1\n\t}\n\tq := p\n\tp = &pt{x: 42}\n\t_ = q\n\treturn fn()"})
	add(c10Tmpl{Family: "defer-unlambda-const-args", Types: "int", Params: []c10Param{{"k", "int"}}, Result: "int", Body: "defer func() { g(7) }()\n\tg(k)\n\treturn k"})
	add(c10Tmpl{Family: "defer-unlambda-funcvar-reassigned", Types: "int", Params: []c10Param{{"k", "int"}}, Result: "int", Body: "f := func(x int) int { return g(x) }\n\tdefer func() { f(1) }()\n\tf = func(x int) int { return g(x + 50) }\n\treturn k"})
	add(c10Tmpl{Family: "defer-unlambda-pkg-call", Types: "int", Params: []c10Param{{"k", "int"}}, Result: "int", Body: "defer func() { fmt.Sprint(\"x\") }()\n\treturn g(k)"})
	// ---- redundantSprint
	add(c10Tmpl{Family: "sprint-of-string", Types: "string", Params: []c10Param{{"s", "string"}}, Result: "string", Body: "return fmt.Sprint(s) + fmt.Sprintf(\"%s\", s) + fmt.Sprintf(\"%v\", s)"})
	add(c10Tmpl{Family: "sprint-of-stringer-pointer", Types: "*pstr", Params: []c10Param{{"p", "*pstr"}}, Result: "string", Body: "return fmt.Sprint(p)"})
	add(c10Tmpl{Family: "sprintf-of-stringer-pointer", Types: "*pstr", Params: []c10Param{{"p", "*pstr"}}, Result: "string", Body: "return fmt.Sprintf(\"%s\", p)"})
	add(c10Tmpl{Family: "sprint-of-mystr", Types: "mystr", Params: []c10Param{{"m", "mystr"}}, Result: "string", Body: "return fmt.Sprint(m)"})
	// string-kinded operands that fmt formats through a method (error, Formatter, GoStringer)
	for _, ty := range []string{"errstr", "fmtstr", "gostr", "mystr"} {
		for _, e := range []string{"fmt.Sprint(v)", "fmt.Sprintf(\"%s\", v)", "fmt.Sprintf(\"%v\", v)"} {
			add(c10Tmpl{Family: "sprint-of-string-kind:" + e, Types: ty, Params: []c10Param{{"v", ty}}, Result: "string", Body: "return " + e})
		}
	}
	// forwarding literals whose callee is a func-typed field / package-level func variable that changes later
	add(c10Tmpl{Family: "unlambda-func-field-reassigned", Types: "int", Params: []c10Param{{"k", "int"}}, Result: "int", Body: "c := codec{encode: func(x int) int { return x * 2 }}\n\tfn := func(x int) int { return c.encode(x) }\n\tc.encode = func(x int) int { return x * 3 }\n\treturn fn(k)"})
	add(c10Tmpl{Family: "unlambda-func-field-of-pointer-reassigned", Types: "int", Params: []c10Param{{"k", "int"}}, Result: "int", Body: "c := &codec{encode: func(x int) int { return x * 2 }}\n\tfn := func(x int) int { return c.encode(x) }\n\tc.encode = func(x int) int { return x * 3 }\n\treturn fn(k)"})
	add(c10Tmpl{Family: "unlambda-pkg-funcvar-reassigned", Types: "int", Params: []c10Param{{"k", "int"}}, Result: "int", Body: "old := pkgfn\n\tdefer func() { pkgfn = old }()\n\tfn := func(x int) int { return pkgfn(x) }\n\tpkgfn = func(x int) int { return x + 100 }\n\treturn fn(k)"})
	add(c10Tmpl{Family: "unlambda-struct-value-method", Types: "int", Params: []c10Param{{"k", "int"}}, Result: "int", Body: "p := pt{x: k}\n\tfn := func() int { return p.x }\n\tgetter := func() int { return (&p).get() }\n\tp.x = 99\n\treturn fn() + getter()"})
	// ---- valSwap
	add(c10Tmpl{Family: "swap-via-tmp", Types: "int", Params: []c10Param{{"a", "int"}, {"b", "int"}}, Result: "string", Body: "tmp := a\n\ta = b\n\tb = tmp\n\treturn fmt.Sprint(a, b)"})
	add(c10Tmpl{Family: "swap-via-tmp-used-after", Types: "int", Params: []c10Param{{"a", "int"}, {"b", "int"}}, Result: "string", Body: "tmp := a\n\ta = b\n\tb = tmp\n\treturn fmt.Sprint(a, b, tmp)"})
	add(c10Tmpl{Family: "swap-via-tmp-pointers", Types: "int", Params: []c10Param{{"a", "int"}, {"b", "int"}}, Result: "string", Body: "x, y := &a, &b\n\ttmp := *x\n\t*x = *y\n\t*y = tmp\n\treturn fmt.Sprint(a, b)"})
	add(c10Tmpl{Family: "swap-via-tmp-indexed-impure", Types: "int", Params: []c10Param{{"k", "int"}}, Result: "string", Body: "xs := []int{1, 2, 3}\n\ti := (k%3 + 3) % 3\n\ttmp := xs[g(i)]\n\txs[g(i)] = xs[0]\n\txs[0] = tmp\n\treturn fmt.Sprint(xs)"})
	// ---- switchTrue / yoda
	add(c10Tmpl{Family: "switch-true", Types: "int", Params: []c10Param{{"a", "int"}}, Result: "int", Body: "switch true {\n\tcase a > 1:\n\t\treturn 1\n\tcase a < -1:\n\t\treturn -1\n\t}\n\treturn 0"})
	add(c10Tmpl{Family: "switch-true-init", Types: "int", Params: []c10Param{{"a", "int"}}, Result: "int", Body: "switch b := g(a); true {\n\tcase b > 1:\n\t\treturn 1\n\t}\n\treturn 0"})
	add(c10Tmpl{Family: "yoda-nil", Types: "*pt", Params: []c10Param{{"p", "*pt"}}, Result: "bool", Body: "return nil != p || nil == p"})
	add(c10Tmpl{Family: "yoda-literal-impure", Types: "int", Params: []c10Param{{"a", "int"}}, Result: "bool", Body: "return 1 == g(a) || 2 != g(a+1) || \"a\" == gs(\"a\")"})
	// ---- wrapperFunc / stringsCompare
	for _, e := range []string{"strings.Index(s, t) != -1", "strings.Index(s, t) == -1", "strings.Index(s, t) >= 0", "strings.Index(s, t) < 0", "strings.IndexAny(s, t) != -1", "strings.IndexRune(s, 'a') != -1 || t == \"\"",
		"strings.ToLower(s) == strings.ToLower(t)", "strings.Compare(s, t) == 0", "strings.Compare(s, t) != 0", "strings.Compare(s, t) < 0", "strings.Compare(s, t) > 0", "strings.Compare(s, t) >= 0", "strings.Compare(s, t) <= 0",
		"strings.Compare(s, t) == -1", "strings.Compare(s, t) == 1"} {
		add(c10Tmpl{Family: "strings-predicate:" + e, Types: "string", Params: []c10Param{{"s", "string"}, {"t", "string"}}, Result: "bool", Body: "return " + e})
	}
	for _, e := range []string{"strings.Replace(s, t, \"x\", -1)", "strings.SplitN(s, t, -1)", "strings.Map(unicode.ToUpper, s) + t", "strings.Title(s) + t"} {
		add(c10Tmpl{Family: "strings-wrapper:" + e, Types: "string", Params: []c10Param{{"s", "string"}, {"t", "string"}}, Result: "string", Body: "return fmt.Sprint(" + e + ")"})
	}
	add(c10Tmpl{Family: "bytes-wrapper", Types: "[]byte", Params: []c10Param{{"b", "[]byte"}, {"c", "[]byte"}}, Result: "string", Body: "return fmt.Sprint(bytes.Index(b, c) != -1, bytes.Compare(b, c) == 0, bytes.Replace(b, c, []byte(\"x\"), -1))"})
	// Index -> Cut forms
	add(c10Tmpl{Family: "index-then-slice(cut)", Types: "string", Params: []c10Param{{"s", "string"}, {"sep", "string"}}, Result: "string", Body: "x, y := \"-\", \"-\"\n\tif sep == \"\" {\n\t\treturn \"\"\n\t}\n\ti := strings.Index(s, sep)\n\tif i == -1 {\n\t\treturn \"none\"\n\t}\n\tx, y = s[:i], s[i+1:]\n\treturn x + \"|\" + y"})
	add(c10Tmpl{Family: "if-index-then-slice(cut)", Types: "string", Params: []c10Param{{"s", "string"}, {"sep", "string"}}, Result: "string", Body: "host, port := \"-\", \"-\"\n\tif sep == \"\" {\n\t\treturn \"\"\n\t}\n\tif i := strings.Index(s, sep); i != -1 {\n\t\thost = s[:i]\n\t\tport = s[i+1:]\n\t}\n\treturn host + \"|\" + port"})
	add(c10Tmpl{Family: "index-then-slice-direct(cut)", Types: "string", Params: []c10Param{{"s", "string"}, {"sep", "string"}}, Result: "string", Body: "if !strings.Contains(s, sep) || sep == \"\" {\n\t\treturn \"\"\n\t}\n\ti := strings.Index(s, sep)\n\tx, y := s[:i], s[i+1:]\n\treturn x + \"|\" + y"})
	// ---- timeExprSimplify
	for _, e := range []string{"t.Unix() / 1000", "t.UnixNano() / 1000", "t.UnixNano() / 1000000", "t.UnixNano() / 1e6", "t.UnixNano() * 1000", "t.Unix() * 1000", "t.UnixNano() / int64(time.Millisecond)", "t.UnixNano() / int64(time.Microsecond)", "t.Sub(u)", "time.Now().Sub(t) > 0", "u.Sub(t).Seconds()"} {
		add(c10Tmpl{Family: "time-expr:" + e, Types: "time", Params: []c10Param{{"t", "time"}, {"u", "time"}}, Result: "string", Body: "return fmt.Sprint(" + e + ")"})
	}
	return ts
}

func c10TypeText(t string) string {
	if t == "time" {
		return "time.Time"
	}
	if t == "fn" {
		return "func(int) int"
	}
	return t
}

type c10Pending struct {
	t        c10Tmpl
	name     string
	orig     string // function text
	sugg     []c10Sugg
	analysed string
}

type c10Sugg struct {
	checker, text string
	fn            string // rewritten function text (renamed)
	name          string
	a, b          string
}

var c10SuggRE = regexp.MustCompile("^suggestion: (.+)$")

func c10(args []string) int {
	ev := evidence.New("C10", "exploration")
	harness.Init()
	ev.Assume("the Go toolchain executing original and rewritten function on the same argument grid is the reference; integer grids stay away from overflow; checkers outside the property's list are ignored")
	tmpls := c10Templates()
	imports := "import (\n\t\"bytes\"\n\t\"time\"\n\t\"unicode\"\n)\n\nvar _ = bytes.Equal\nvar _ = time.Now\nvar _ = unicode.ToUpper\n"
	header := "package vpkg\n\nimport (\n\t\"bytes\"\n\t\"fmt\"\n\t\"math\"\n\t\"strings\"\n\t\"time\"\n\t\"unicode\"\n)\n\nvar (\n\t_ = bytes.Equal\n\t_ = fmt.Sprint\n\t_ = math.NaN\n\t_ = strings.Index\n\t_ = time.Now\n\t_ = unicode.ToUpper\n\ttrace []string\n)\n\nfunc tr(s string) { trace = append(trace, s) }\n" + c10Common
	var mu sync.Mutex
	var pend []c10Pending
	jobs := make(chan int, 64)
	var wg sync.WaitGroup
	illTyped := 0
	for w := 0; w < 16; w++ {
		wg.Add(1)
		go func() {
			defer wg.Done()
			set, err := harness.NewSet(harness.Infos(nil), "")
			if err != nil {
				panic(err)
			}
			for i := range jobs {
				t := tmpls[i]
				name := fmt.Sprintf("t%d", i)
				var ps []string
				for _, p := range t.Params {
					ps = append(ps, p.Name+" "+c10TypeText(p.Type))
				}
				fn := fmt.Sprintf("func %s(%s) %s {\n\t%s\n}\n", name, strings.Join(ps, ", "), t.Result, t.Body)
				src := header + "\n" + fn
				pk := harness.LoadOne(src)
				ev.Eval(1)
				if len(pk.Errs) > 0 {
					mu.Lock()
					illTyped++
					mu.Unlock()
					if os.Getenv("VERIF_DEBUG") != "" {
						fmt.Fprintln(os.Stderr, "c10 ill-typed template", t.Family, t.Types, pk.Errs[0])
					}
					pk.Release()
					continue
				}
				d, _ := set.VisitAll(pk)
				fnOff := len(src) - len(fn)
				p := c10Pending{t: t, name: name, orig: fn, analysed: src}
				for _, x := range d {
					if !c10Checkers[x.Checker] || x.Offset < fnOff {
						continue
					}
					var from, to int
					var repl, a string
					switch {
					case x.HasFix && x.FixInFile:
						from, to, repl = x.From, x.To, x.Repl
						a = src[from:to]
					default:
						found := false
						for _, fm := range c09Formats {
							m := fm.re.FindStringSubmatch(x.Text)
							if m == nil || fm.a == 0 {
								continue
							}
							b := fm.lit
							if fm.b > 0 {
								b = m[fm.b]
							}
							// locate the quoted original textually, at or after the diagnostic, whitespace-insensitively
							want := stripWS(m[fm.a])
							for lo := x.Offset; lo >= fnOff && lo > x.Offset-80 && !found; lo-- {
								for hi := lo + 1; hi <= len(src) && hi-lo < 400; hi++ {
									if stripWS(src[lo:hi]) == want && (hi == len(src) || src[hi] != ' ') {
										from, to, repl, a, found = lo, hi, b, src[lo:hi], true
										break
									}
								}
								if lo == x.Offset && found {
									break
								}
							}
							break
						}
						if !found {
							continue
						}
					}
					if from < fnOff {
						continue
					}
					sname := fmt.Sprintf("%ss%d", name, len(p.sugg))
					newFn := fn[:from-fnOff] + repl + fn[to-fnOff:]
					newFn = strings.Replace(newFn, "func "+name+"(", "func "+sname+"(", 1)
					p.sugg = append(p.sugg, c10Sugg{checker: x.Checker, text: x.Text, fn: newFn, name: sname, a: a, b: repl})
				}
				pk.Release()
				if len(p.sugg) > 0 {
					mu.Lock()
					pend = append(pend, p)
					mu.Unlock()
				}
			}
		}()
	}
	for i := range tmpls {
		jobs <- i
	}
	close(jobs)
	wg.Wait()

	// build executable cases: original and every suggestion evaluated over the argument grid
	var cases []gorun.Case
	type meta struct {
		p c10Pending
		s c10Sugg
	}
	metas := map[string]meta{}
	notCompiling := 0
	for _, p := range pend {
		for _, s := range p.sugg {
			id := fmt.Sprintf("%s|%s|%s|%s", s.checker, p.t.Family, p.t.Types, s.name)
			var loops, closes, argsL []string
			for _, prm := range p.t.Params {
				loops = append(loops, fmt.Sprintf("for _, %s := range %s {", prm.Name, c10Grids[prm.Type]))
				closes = append(closes, "}")
				argsL = append(argsL, prm.Name)
			}
			call := func(fn string) string {
				return fmt.Sprintf("func() (out string) {\n\t\tdefer func() {\n\t\t\tif r := recover(); r != nil {\n\t\t\t\tout = \"PANIC \" + flushTrace()\n\t\t\t}\n\t\t}()\n\t\tv := %s(%s)\n\t\treturn fmt.Sprintf(\"%%#v\", v) + \" \" + flushTrace()\n\t}()", fn, strings.Join(argsL, ", "))
			}
			body := "\t" + strings.Join(loops, "\n\t") + "\n\t\tobs(\"o\", " + call(p.name) + ")\n\t\tobs(\"s\", " + call(s.name) + ")\n\t" + strings.Join(closes, "") + ""
			c := gorun.Case{ID: id, Decls: p.orig + "\n" + s.fn, Body: body}
			metas[id] = meta{p, s}
			cases = append(cases, c)
		}
	}
	// shared declarations once; each case's own functions have unique names. The original function is
	// emitted once per suggestion: deduplicate by dropping repeated originals.
	seenOrig := map[string]bool{}
	var runnable []gorun.Case
	common := gorun.Case{ID: "common", Decls: c10Common, Body: ""}
	for _, c := range cases {
		m := metas[c.ID]
		decls := m.s.fn
		if !seenOrig[m.p.name] {
			decls = m.p.orig + "\n" + decls
		}
		probe := gorun.Case{ID: c.ID, Decls: c10Common + m.p.orig + "\n" + m.s.fn, Body: c.Body}
		if !gorun.Compiles(probe, imports) {
			// the suggestion does not compile in place: C09's subject, not a behavioural difference
			notCompiling++
			continue
		}
		seenOrig[m.p.name] = true
		c.Decls = decls
		runnable = append(runnable, c)
	}
	all := append([]gorun.Case{common}, runnable...)
	obs, err := gorun.Run(all, imports, 100000)
	if err != nil {
		fmt.Fprintln(os.Stderr, "C10: generated program failed (broken check):", err)
		return 2
	}
	for _, c := range runnable {
		m := metas[c.ID]
		o := obs[c.ID]
		ev.Nontrivial(c.ID)
		if len(o["o"]) == 0 || len(o["o"]) != len(o["s"]) {
			continue
		}
		for i := range o["o"] {
			if o["o"][i] != o["s"][i] {
				ev.Violate(evidence.Violation{
					Key:      fmt.Sprintf("%s|%s|%s", m.s.checker, m.p.t.Family, strings.Fields(m.p.t.Types + " _")[0]),
					What:     fmt.Sprintf("%s: the proposed rewrite changes the behaviour of the program", m.s.checker),
					Observed: fmt.Sprintf("%s\nrewrite %q => %q\ncall #%d of the argument grid: original gives %s, rewritten gives %s\noriginal function:\n%s", m.s.text, m.s.a, m.s.b, i, o["o"][i], o["s"][i], m.p.orig),
					Replay:   map[string]interface{}{"kind": "program", "path": "vpkg", "files": map[string]string{"f.go": m.p.analysed}, "checker": m.s.checker, "rewritten": m.s.fn},
				})
				break
			}
		}
	}
	ev.Set("templates", len(tmpls))
	ev.Set("templates_ill_typed", illTyped)
	ev.Set("templates_with_a_rewrite", len(pend))
	ev.Set("rewrites_executed", len(runnable))
	ev.Set("rewrites_not_compiling_in_place", notCompiling)
	if len(runnable) > 0 {
		m := metas[runnable[0].ID]
		ev.Sample(map[string]interface{}{"original": m.p.orig, "rewritten": m.s.fn, "diagnostic": m.s.text, "grid": "every combination of the parameter grids (ints -2..11, floats incl. NaN/-0/Inf, strings incl. multi-byte separators)"})
	}
	ev.Set("rule", "template functions over operand alphabets for every checker the property lists (boolean/comparison simplification incl. range folds with decimal/octal/hex literals and inc/dec removal on int/uint/float/named float; compound assignment for every operator and operand order; len/empty-string/bytes idioms; unslice; underef; new-deref over 14 types; (deferred) lambda removal incl. reassigned callees; Sprint removal incl. nil Stringer pointers; value swap incl. temporary used afterwards; switch-true; Yoda; Index/Compare/wrapper predicates; Index-to-Cut; time unit helpers). For every rewrite the checker proposes the function is cloned with the rewrite applied; both are compiled and run by the real toolchain over the full argument grid, comparing result, panic and side-effect trace. non-trivial = distinct executed rewrite")
	return ev.Finish()
}

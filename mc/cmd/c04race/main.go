// c04race is built with -race and runs the checkers free-running (real goroutines, real sync): all
// checkers as goroutines over one shared tree/type info/context (what checkFile does), and several
// per-package checker sets in parallel (what a go/analysis driver does). The race detector reports
// unsynchronised accesses that the cooperative scheduler cannot see.
package main

import (
	"fmt"
	"os"
	"strings"
	"sync"

	"verif/mc/internal/harness"
	"verif/mc/internal/progenum"
)

const structs = `package vpkg

type big struct{ a [200]byte }
type small struct{ a byte }

func (b big) M(x big, s small) int { return int(x.a[0]) + int(s.a) }

func rng(bs []big, ss []small, arr [600]byte) int {
	n := 0
	for _, b := range bs {
		n += int(b.a[0])
	}
	for _, s := range ss {
		n += int(s.a)
	}
	for _, x := range arr {
		n += int(x)
	}
	return n
}
`

// ctorMode: the first thing this process does with the checker constructors is to run them from several
// goroutines at once (what a go/analysis driver does with one pass per package); every goroutine then analyses
// the same small programs with its own set, and all of them must report the same.
func ctorMode() {
	harness.Init()
	srcs := []string{structs,
		"package vpkg\n\nimport (\n\t\"strings\"\n\t\"sync\"\n)\n\nfunc f(s string, xs []int, m *sync.Map) bool {\n\tif v, ok := m.Load(1); ok {\n\t\tm.Delete(1)\n\t\t_ = v\n\t}\n\txs = append(xs, 1)\n\txs = append(xs, 2)\n\treturn strings.Index(s, \"a\") >= 0 || len(s) >= 0 || strings.HasPrefix(\"x\", s)\n}\n"}
	const n = 8
	start := make(chan struct{})
	outs := make([]string, n)
	var wg sync.WaitGroup
	for g := 0; g < n; g++ {
		wg.Add(1)
		go func(g int) {
			defer wg.Done()
			defer func() {
				if r := recover(); r != nil {
					outs[g] = fmt.Sprint("PANIC ", r)
				}
			}()
			<-start
			s, err := harness.NewSet(harness.Infos(nil), "")
			if err != nil {
				outs[g] = "ERR " + err.Error()
				return
			}
			var all []string
			for _, src := range srcs {
				pk := harness.LoadOne(src)
				d, crashes := s.VisitAll(pk)
				all = append(all, harness.SortedDiagStrings(d)...)
				for _, c := range crashes {
					all = append(all, "CRASH "+c.Checker+" "+c.Value)
				}
			}
			outs[g] = strings.Join(all, "\n")
		}(g)
	}
	close(start)
	wg.Wait()
	// reference: a set constructed now, alone
	ref := ""
	{
		s, err := harness.NewSet(harness.Infos(nil), "")
		if err != nil {
			fmt.Println("CTOR-BROKEN", err)
			os.Exit(2)
		}
		var all []string
		for _, src := range srcs {
			pk := harness.LoadOne(src)
			d, _ := s.VisitAll(pk)
			all = append(all, harness.SortedDiagStrings(d)...)
		}
		ref = strings.Join(all, "\n")
	}
	if len(ref) < 50 {
		fmt.Println("CTOR-BROKEN reference run reports nothing")
		os.Exit(2)
	}
	for g, o := range outs {
		if o != ref {
			fmt.Printf("CTOR-VIOLATION goroutine %d of %d constructing checker sets at the same time reports differently from a set constructed alone:\n%s\n", g, n, firstDiff(ref, o))
			break
		}
	}
	harness.Cleanup()
	fmt.Println("CTOR-DONE")
}

func firstDiff(a, b string) string {
	al, bl := strings.Split(a, "\n"), strings.Split(b, "\n")
	in := map[string]int{}
	for _, l := range al {
		in[l]++
	}
	for _, l := range bl {
		in[l]--
	}
	var out []string
	for l, n := range in {
		if n > 0 {
			out = append(out, "  missing: "+l)
		} else if n < 0 {
			out = append(out, "  extra:   "+l)
		}
	}
	if len(out) > 6 {
		out = out[:6]
	}
	return strings.Join(out, "\n")
}

func main() {
	if len(os.Args) > 1 && os.Args[1] == "-ctor" {
		ctorMode()
		return
	}
	harness.Init()
	var progs []progenum.Prog
	add := func(p progenum.Prog) { progs = append(progs, p) }
	add(progenum.Prog{ID: "structs", Path: "vpkg", Files: []harness.File{{Name: "f.go", Src: structs}}})
	for _, name := range harness.TestdataNames() {
		groups, err := harness.TestdataFiles(name)
		if err != nil {
			continue
		}
		for k, files := range groups {
			add(progenum.Prog{ID: "testdata|" + name + "|" + k, Path: "github.com/go-critic/go-critic/checkers/testdata/" + name, Files: files})
		}
	}
	progenum.Odd(func(p progenum.Prog) {
		if !strings.Contains(p.ID, "+") {
			add(p)
		}
	})
	// leg A: one shared set, every checker its own goroutine per file, varying concurrency limits
	set, err := harness.NewSet(harness.Infos(nil), "")
	if err != nil {
		fmt.Fprintln(os.Stderr, err)
		os.Exit(2)
	}
	n := 0
	for pi := range progs {
		p := &progs[pi]
		pk := harness.Load(p.Path, p.Files)
		if len(pk.Errs) > 0 {
			pk.Release()
			continue
		}
		for fi, f := range pk.Files {
			if fi == 0 {
				set.Ctx.SetPackageInfo(pk.Info, pk.Types)
			}
			set.Ctx.SetFileInfo(pk.Names[fi], f)
			// once with a small limit (the hand-offs of the semaphore order checkers that are far apart in the
			// list, as in the CLI when every checker is quick) and once with no effective limit (any two
			// checkers may overlap, as in the CLI when one of them is slow)
			for _, conc := range []int{[]int{2, 4, 16}[(pi+fi)%3], len(set.Checkers)} {
				sema := make(chan struct{}, conc)
				var wg sync.WaitGroup
				for _, c := range set.Checkers {
					c := c
					wg.Add(1)
					sema <- struct{}{}
					go func() {
						defer wg.Done()
						defer func() { <-sema; recover() }()
						_ = len(c.Check(f))
					}()
				}
				wg.Wait()
			}
			n++
		}
		pk.Release()
	}
	// leg B: parallel per-package checker sets (own context each), sharing the registry, the embedded
	// rule data and the file set
	var wg sync.WaitGroup
	// every goroutine analyses EVERY program with its own checker set, so that instances of the same checker
	// work on the same kind of input at overlapping times
	for g := 0; g < 6; g++ {
		wg.Add(1)
		go func(g int) {
			defer wg.Done()
			s, err := harness.NewSet(harness.Infos(nil), "")
			if err != nil {
				return
			}
			for k := 0; k < len(progs); k++ {
				pi := (k + g*7) % len(progs)
				pk := harness.Load(progs[pi].Path, progs[pi].Files)
				if len(pk.Errs) == 0 {
					s.VisitAll(pk)
				}
				pk.Release()
			}
		}(g)
	}
	wg.Wait()
	harness.Cleanup()
	fmt.Printf("c04race: %d files analysed with all checkers as goroutines; parallel per-package sets done\n", n)
}

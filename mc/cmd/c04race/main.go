// c04race is built with -race and runs the checkers free-running (real goroutines, real sync): all
// checkers as goroutines over one shared tree/type info/context (what checkFile does), and several
// per-package checker sets in parallel (what a go/analysis driver does). The race detector reports
// unsynchronised accesses that the cooperative scheduler cannot see.
package main

import (
	"fmt"
	"os"
	"strings"
	"sync"

	"verif/mc/internal/harness"
	"verif/mc/internal/progenum"
)

const structs = `package vpkg

type big struct{ a [200]byte }
type small struct{ a byte }

func (b big) M(x big, s small) int { return int(x.a[0]) + int(s.a) }

func rng(bs []big, ss []small, arr [600]byte) int {
	n := 0
	for _, b := range bs {
		n += int(b.a[0])
	}
	for _, s := range ss {
		n += int(s.a)
	}
	for _, x := range arr {
		n += int(x)
	}
	return n
}
`

func main() {
	harness.Init()
	var progs []progenum.Prog
	add := func(p progenum.Prog) { progs = append(progs, p) }
	add(progenum.Prog{ID: "structs", Path: "vpkg", Files: []harness.File{{Name: "f.go", Src: structs}}})
	for _, name := range harness.TestdataNames() {
		groups, err := harness.TestdataFiles(name)
		if err != nil {
			continue
		}
		for k, files := range groups {
			add(progenum.Prog{ID: "testdata|" + name + "|" + k, Path: "github.com/go-critic/go-critic/checkers/testdata/" + name, Files: files})
		}
	}
	progenum.Odd(func(p progenum.Prog) {
		if !strings.Contains(p.ID, "+") {
			add(p)
		}
	})
	// leg A: one shared set, every checker its own goroutine per file, varying concurrency limits
	set, err := harness.NewSet(harness.Infos(nil), "")
	if err != nil {
		fmt.Fprintln(os.Stderr, err)
		os.Exit(2)
	}
	n := 0
	for pi := range progs {
		p := &progs[pi]
		pk := harness.Load(p.Path, p.Files)
		if len(pk.Errs) > 0 {
			pk.Release()
			continue
		}
		for fi, f := range pk.Files {
			if fi == 0 {
				set.Ctx.SetPackageInfo(pk.Info, pk.Types)
			}
			set.Ctx.SetFileInfo(pk.Names[fi], f)
			conc := []int{2, 4, 16}[(pi+fi)%3]
			sema := make(chan struct{}, conc)
			var wg sync.WaitGroup
			for _, c := range set.Checkers {
				c := c
				wg.Add(1)
				sema <- struct{}{}
				go func() {
					defer wg.Done()
					defer func() { <-sema; recover() }()
					_ = len(c.Check(f))
				}()
			}
			wg.Wait()
			n++
		}
		pk.Release()
	}
	// leg B: parallel per-package checker sets (own context each), sharing the registry, the embedded
	// rule data and the file set
	var wg sync.WaitGroup
	// every goroutine analyses EVERY program with its own checker set, so that instances of the same checker
	// work on the same kind of input at overlapping times
	for g := 0; g < 6; g++ {
		wg.Add(1)
		go func(g int) {
			defer wg.Done()
			s, err := harness.NewSet(harness.Infos(nil), "")
			if err != nil {
				return
			}
			for k := 0; k < len(progs); k++ {
				pi := (k + g*7) % len(progs)
				pk := harness.Load(progs[pi].Path, progs[pi].Files)
				if len(pk.Errs) == 0 {
					s.VisitAll(pk)
				}
				pk.Release()
			}
		}(g)
	}
	wg.Wait()
	harness.Cleanup()
	fmt.Printf("c04race: %d files analysed with all checkers as goroutines; parallel per-package sets done\n", n)
}

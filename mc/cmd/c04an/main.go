//go:build verif && verifsched

// c04an explores interleavings of concurrent go/analysis passes over the REAL runAnalyzer (its mutex is
// rewritten to the cooperative scheduler at build time), from every state of the init latch.
package main

import (
	"encoding/json"
	"flag"
	"fmt"
	"go/ast"
	"go/importer"
	"go/parser"
	"go/token"
	"go/types"
	"io"
	"log"
	"os"
	"runtime"
	"sort"
	"strings"

	"github.com/go-critic/go-critic/checkers/analyzer"
	"github.com/go-critic/go-critic/verifmcrt"
	"golang.org/x/tools/go/analysis"
)

type passOut struct {
	Diags []string
	Err   string
}

func (p passOut) String() string { return fmt.Sprintf("err=%q diags=%v", p.Err, p.Diags) }

var sources = []string{
	"package p0\n\nfunc F(A int) int { return A }\n",
	"package p1\n\nfunc G(B, C int) int { return B + C }\n",
	"package p2\n\nfunc H(x int) int { D := x; return D }\n",
}

var imp = importer.Default()

func mkPass(i int, out *passOut) *analysis.Pass {
	fset := token.NewFileSet()
	f, err := parser.ParseFile(fset, fmt.Sprintf("p%d.go", i), sources[i], parser.ParseComments)
	if err != nil {
		panic(err)
	}
	info := &types.Info{Types: map[ast.Expr]types.TypeAndValue{}, Defs: map[*ast.Ident]types.Object{}, Uses: map[*ast.Ident]types.Object{},
		Implicits: map[ast.Node]types.Object{}, Selections: map[*ast.SelectorExpr]*types.Selection{}, Scopes: map[ast.Node]*types.Scope{}, Instances: map[*ast.Ident]types.Instance{}}
	conf := types.Config{Importer: imp, Error: func(error) {}}
	pkg, _ := conf.Check(fmt.Sprintf("p%d", i), fset, []*ast.File{f}, info)
	return &analysis.Pass{Analyzer: analyzer.Analyzer, Fset: fset, Files: []*ast.File{f}, Pkg: pkg, TypesInfo: info, TypesSizes: types.SizesFor("gc", runtime.GOARCH),
		Report: func(d analysis.Diagnostic) {
			out.Diags = append(out.Diags, fmt.Sprintf("%s: %s", fset.Position(d.Pos), d.Message))
		}}
}

type result struct {
	Scenario     string
	Executions   int
	Transitions  int
	Observations int
	Violations   []map[string]interface{}
	Sample       []string
}

func main() {
	bound := flag.Int("bound", 2, "preemption bound (-1 = unbounded)")
	free := flag.Int("free", 0, "free-running mode: N rounds of real concurrent passes per configuration (for -race builds)")
	flag.Parse()
	if *free > 0 {
		freeRun(*free)
		return
	}
	log.SetOutput(io.Discard)
	analyzer.DisableCache = false
	fs := &analyzer.Analyzer.Flags
	setFlags := func(args []string) {
		fs.VisitAll(func(f *flag.Flag) { f.Value.Set(f.DefValue) })
		if err := fs.Parse(args); err != nil {
			panic(err)
		}
	}
	configs := map[string][]string{"valid": {"-enable=captLocal", "-disable="}, "bad-go": {"-go=1.x"}, "empty": {"-enable=nosuch", "-disable="}}
	var results []result
	for _, cfgName := range []string{"valid", "bad-go", "empty"} {
		for _, latch := range []string{"fresh", "warm"} {
			for _, n := range []int{2, 3} {
				setFlags(configs[cfgName])
				prepare := func() {
					analyzer.VerifReset()
					if latch == "warm" {
						var o passOut
						analyzer.Analyzer.Run(mkPass(0, &o)) // one pass already went through the latch
					}
				}
				// sequential reference
				prepare()
				ref := make([]passOut, n)
				for i := 0; i < n; i++ {
					_, err := analyzer.Analyzer.Run(mkPass(i, &ref[i]))
					if err != nil {
						ref[i].Err = err.Error()
					}
				}
				invalid := cfgName != "valid"
				res := result{Scenario: fmt.Sprintf("%s|%s|%d passes", cfgName, latch, n)}
				obsSet := map[string]bool{}
				outs := make([]passOut, n)
				body := func() {
					prepare()
					for i := range outs {
						outs[i] = passOut{}
					}
					var wg verifmcrt.WaitGroup
					wg.Add(n)
					for i := 0; i < n; i++ {
						i := i
						verifmcrt.Go(func() {
							defer wg.Done()
							_, err := analyzer.Analyzer.Run(mkPass(i, &outs[i]))
							if err != nil {
								outs[i].Err = err.Error()
							}
						})
					}
					wg.Wait()
				}
				visit := func(x *verifmcrt.Execution) {
					res.Executions++
					res.Transitions += len(x.Points)
					var os_ []string
					for _, o := range outs {
						os_ = append(os_, o.String())
					}
					obs := fmt.Sprintf("died=%q deadlock=%v diverged=%q %s", x.Died, x.Deadlock, x.Diverged, strings.Join(os_, " ; "))
					obsSet[obs] = true
					if len(res.Sample) == 0 && len(x.Choices) > 3 {
						for _, pt := range x.Points {
							res.Sample = append(res.Sample, fmt.Sprintf("%s enabled=%v chosen=%d", pt.What, pt.Enabled, pt.Chosen))
						}
					}
					viol := func(class, expected string) {
						if len(res.Violations) < 10 {
							res.Violations = append(res.Violations, map[string]interface{}{"class": class, "schedule": append([]int{}, x.Choices...), "observed": obs, "expected": expected})
						}
					}
					switch {
					case x.Diverged != "":
						viol("replay-divergence", "")
					case x.Deadlock:
						viol("deadlock", "")
					case x.Died != "":
						viol("pass-panics", "")
					case !invalid:
						for i := range outs {
							if outs[i].String() != ref[i].String() {
								viol("pass-differs-from-sequential", ref[i].String())
								break
							}
						}
					default:
						// invalid configuration: nothing is ever analysed; with a fresh latch exactly one pass reports the error
						nerr := 0
						for _, o := range outs {
							if len(o.Diags) > 0 {
								viol("analysed-after-failed-init", "")
							}
							if o.Err != "" {
								nerr++
							}
						}
						var a, b []string
						for i := range outs {
							a = append(a, outs[i].Err)
							b = append(b, ref[i].Err)
						}
						sort.Strings(a)
						sort.Strings(b)
						if strings.Join(a, "|") != strings.Join(b, "|") {
							viol("error-reporting-differs-from-sequential", fmt.Sprint(b))
						}
					}
				}
				verifmcrt.Explore(*bound, body, visit)
				res.Observations = len(obsSet)
				results = append(results, res)
			}
		}
	}
	json.NewEncoder(os.Stdout).Encode(results)
}

// freeRun: real goroutines, real sync (no execution is active, so the shims fall through): concurrent
// passes for each configuration from a fresh latch. Used under the race detector.
func freeRun(rounds int) {
	log.SetOutput(io.Discard)
	analyzer.DisableCache = false
	fs := &analyzer.Analyzer.Flags
	configs := map[string][]string{"valid": {"-enable=captLocal", "-disable="}, "bad-go": {"-go=1.x"}, "empty": {"-enable=nosuch", "-disable="}}
	bad := 0
	for _, name := range []string{"valid", "bad-go", "empty"} {
		fs.VisitAll(func(f *flag.Flag) { f.Value.Set(f.DefValue) })
		if err := fs.Parse(configs[name]); err != nil {
			panic(err)
		}
		for r := 0; r < rounds; r++ {
			analyzer.VerifReset()
			outs := make([]passOut, 8)
			done := make(chan int, len(outs))
			for i := range outs {
				i := i
				go func() {
					defer func() { recover(); done <- i }()
					_, err := analyzer.Analyzer.Run(mkPass(i%len(sources), &outs[i]))
					if err != nil {
						outs[i].Err = err.Error()
					}
				}()
			}
			for range outs {
				<-done
			}
			nerr := 0
			for _, o := range outs {
				if o.Err != "" {
					nerr++
				}
			}
			if name != "valid" && nerr != 1 {
				bad++
				if bad <= 3 {
					fmt.Printf("FREE-VIOLATION config=%s round=%d: the init error was reported %d times by 8 concurrent passes (sequentially: exactly once)\n", name, r, nerr)
				}
			}
		}
	}
	fmt.Println("FREE-DONE")
}

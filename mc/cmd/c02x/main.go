//go:build verif

// c02x explores environment answers for Go map iteration order: it is linked against a copy of
// go-critic in which every `range` over a map goes through verifmcrt.MapKeys (rewritten at build time
// by vinstr, /repo untouched), runs scenarios on the real checkers, and for every dynamic visit of a
// map-range site re-executes the scenario with every permutation of that visit's keys.
package main

import (
	"encoding/json"
	"flag"
	"fmt"
	"io"
	"log"
	"os"
	"sort"
	"strings"

	"github.com/go-critic/go-critic/linter"
	"github.com/go-critic/go-critic/verifmcrt"

	"verif/mc/internal/harness"
	"verif/mc/internal/progenum"
)

type visit struct{ Site, N int }

var (
	rec  []visit
	plan map[int][]int
)

func hook(site, n int) []int {
	idx := len(rec)
	rec = append(rec, visit{site, n})
	if p, ok := plan[idx]; ok {
		if len(p) != n {
			// the deviation changed an earlier part of the execution: replay divergence is a hard error
			panic(fmt.Sprintf("c02x: replay divergence at visit %d: planned permutation of %d keys, site %d has %d", idx, len(p), site, n))
		}
		return p
	}
	return nil
}

// perms returns the permutations to try for n keys (identity excluded): all of them up to 4 keys,
// otherwise all rotations, the reversal and all adjacent transpositions (a stated cap).
func perms(n int) (out [][]int, capped bool) {
	id := make([]int, n)
	for i := range id {
		id[i] = i
	}
	if n <= 4 {
		var rec func(k int, cur []int, used []bool)
		rec = func(k int, cur []int, used []bool) {
			if k == n {
				same := true
				for i, v := range cur {
					if v != i {
						same = false
					}
				}
				if !same {
					out = append(out, append([]int{}, cur...))
				}
				return
			}
			for i := 0; i < n; i++ {
				if !used[i] {
					used[i] = true
					rec(k+1, append(cur, i), used)
					used[i] = false
				}
			}
		}
		rec(0, nil, make([]bool, n))
		return out, false
	}
	for r := 1; r < n; r++ {
		p := make([]int, n)
		for i := range p {
			p[i] = (i + r) % n
		}
		out = append(out, p)
	}
	rev := make([]int, n)
	for i := range rev {
		rev[i] = n - 1 - i
	}
	out = append(out, rev)
	for i := 0; i+1 < n; i++ {
		p := append([]int{}, id...)
		p[i], p[i+1] = p[i+1], p[i]
		out = append(out, p)
	}
	return out, true
}

type result struct {
	Executions        int            `json:"executions"`
	Scenarios         int            `json:"scenarios"`
	Company           int            `json:"company_scenarios"`
	CompanyNontrivial int            `json:"company_scenarios_with_diagnostics"`
	WithChoice        int            `json:"scenarios_with_choice"`
	ChoicePts         int            `json:"choice_points"`
	Capped            int            `json:"capped_choice_points"`
	SitesHit          map[string]int `json:"sites_hit_with_2plus_keys"`
	SitesSeen         map[string]int `json:"sites_seen"`
	Violations        []violation    `json:"violations"`
	Samples           []interface{}  `json:"samples"`
	DistinctObs       int            `json:"distinct_observations"`
	obs               map[string]bool
}

type violation struct {
	Key      string      `json:"key"`
	What     string      `json:"what"`
	Observed string      `json:"observed"`
	Replay   interface{} `json:"replay"`
}

func explore(res *result, name string, bound int, replay interface{}, scn func() string) {
	plan, rec = nil, nil
	base := scn()
	baseRec := append([]visit{}, rec...)
	res.Executions++
	res.Scenarios++
	res.obs[base] = true
	has := false
	for _, v := range baseRec {
		res.SitesSeen[fmt.Sprint(v.Site)]++
		if v.N >= 2 {
			has = true
			res.SitesHit[fmt.Sprint(v.Site)]++
		}
	}
	if !has {
		return
	}
	res.WithChoice++
	// determinism of the seam itself: same plan twice => same observation
	plan, rec = nil, nil
	if again := scn(); again != base {
		res.Violations = append(res.Violations, violation{Key: "repeat|" + name, What: "two executions with identical map orders differ (nondeterminism not owned by the seam)", Observed: diffText(base, again), Replay: replay})
		return
	}
	res.Executions++
	type dev struct {
		i int
		p []int
	}
	var devs []dev
	for i, v := range baseRec {
		if v.N < 2 {
			continue
		}
		res.ChoicePts++
		ps, capped := perms(v.N)
		if capped {
			res.Capped++
		}
		for _, p := range ps {
			devs = append(devs, dev{i, p})
		}
	}
	run := func(pl map[int][]int) (obs string, diverged bool) {
		defer func() {
			if r := recover(); r != nil {
				if s, ok := r.(string); ok && strings.HasPrefix(s, "c02x: replay divergence") {
					diverged = true
					return
				}
				panic(r)
			}
		}()
		plan, rec = pl, nil
		return scn(), false
	}
	report := func(pl map[int][]int, obs string) {
		var sites []string
		var idx []int
		for i := range pl {
			idx = append(idx, i)
		}
		sort.Ints(idx)
		for _, i := range idx {
			sites = append(sites, fmt.Sprintf("site %d keys %v", baseRec[i].Site, pl[i]))
		}
		res.Violations = append(res.Violations, violation{
			Key:      fmt.Sprintf("maporder|site%d|%s", baseRec[idx[0]].Site, name),
			What:     "diagnostics depend on Go map iteration order",
			Observed: fmt.Sprintf("%s: %s\n%s", name, strings.Join(sites, "; "), diffText(base, obs)),
			Replay:   map[string]interface{}{"scenario": replay, "mapOrders": pl},
		})
	}
	if len(res.Samples) < 4 {
		res.Samples = append(res.Samples, map[string]interface{}{"scenario": name, "choice_points": baseRec, "deviations": len(devs)})
	}
	for _, d := range devs {
		obs, div := run(map[int][]int{d.i: d.p})
		res.Executions++
		if div {
			continue // a deviation that changes the number of keys later on is still compared below when it completes
		}
		res.obs[obs] = true
		if obs != base {
			report(map[int][]int{d.i: d.p}, obs)
			return // one counterexample per scenario
		}
	}
	if bound >= 2 {
		for a := 0; a < len(devs); a++ {
			for b := a + 1; b < len(devs); b++ {
				if devs[a].i == devs[b].i {
					continue
				}
				pl := map[int][]int{devs[a].i: devs[a].p, devs[b].i: devs[b].p}
				obs, div := run(pl)
				res.Executions++
				if div {
					continue
				}
				if obs != base {
					report(pl, obs)
					return
				}
			}
		}
	}
}

// company explores the second environment choice of a run: which checkers ran before a checker on the shared
// context. Canonical = every checker in registration order on the long-lived set (after every earlier program);
// deviation = the reverse order on a fresh context (for every pair (A,B) one of the two runs has B before A, and
// one of the two has nothing analysed before). The multiset of diagnostics must be the same.
func company(res *result, name string, set, rgSet *harness.Set, restInfos []*linter.CheckerInfo, pk *harness.Pkg, replay interface{}) {
	plan, rec = nil, nil
	obsOf := func(d []harness.Diag, crashes []*harness.Crash) []string {
		obs := harness.DiagStrings(d)
		for _, c := range crashes {
			obs = append(obs, "CRASH "+c.Checker+" "+c.Value)
		}
		sort.Strings(obs)
		return obs
	}
	base := obsOf(set.VisitAll(pk))
	fresh, err := harness.NewSet(restInfos, "")
	if err != nil {
		fmt.Fprintln(os.Stderr, err)
		os.Exit(2)
	}
	d, crashes := fresh.VisitAll(pk)
	if rgSet != nil {
		d2, c2 := rgSet.VisitAll(pk)
		d, crashes = append(d, d2...), append(crashes, c2...)
	}
	rev := obsOf(d, crashes)
	res.Executions += 2
	res.Company++
	if len(base) > 0 {
		res.CompanyNontrivial++
	}
	if strings.Join(base, "\n") != strings.Join(rev, "\n") {
		// name the first checker whose diagnostics differ
		who := "?"
		cnt := map[string]int{}
		for _, l := range base {
			cnt[l]++
		}
		for _, l := range rev {
			cnt[l]--
		}
		var diff []string
		for l, n := range cnt {
			if n != 0 {
				diff = append(diff, l)
			}
		}
		sort.Strings(diff)
		if len(diff) > 0 {
			if f := strings.SplitN(diff[0], ": ", 3); len(f) == 3 {
				who = f[1]
			}
		}
		for _, v := range res.Violations {
			if v.Key == "checker-company|"+who {
				return
			}
		}
		res.Violations = append(res.Violations, violation{Key: "checker-company|" + who, What: who + ": the diagnostics for a program depend on which checkers (or programs) were run before on the shared context, not only on the source, types and configuration",
			Observed: name + ": registration order on the long-lived set vs reverse order on a fresh context\n" + diffText(strings.Join(base, "\n"), strings.Join(rev, "\n")), Replay: replay})
	}
}

func diffText(a, b string) string {
	al, bl := strings.Split(a, "\n"), strings.Split(b, "\n")
	for i := 0; i < len(al) || i < len(bl); i++ {
		var x, y string
		if i < len(al) {
			x = al[i]
		}
		if i < len(bl) {
			y = bl[i]
		}
		if x != y {
			return fmt.Sprintf("first difference at line %d:\n  canonical: %s\n  permuted:  %s", i+1, x, y)
		}
	}
	return "(equal)"
}

const craftedDupImports = `package vpkg

import (
	"fmt"
	f2 "fmt"
	"os"
	o2 "os"
	"strings"
	s2 "strings"
	s3 "strings"
)

func u(fmt2, os2, path, strings2 int) {
	fmt.Println(f2.Sprint(), os.Args, o2.Args, strings.ToLower(""), s2.ToLower(""), s3.ToUpper(""))
}

func shadow() {
	fmt := 1
	os := 2
	strings := 3
	f2, o2, s2 := 1, 2, 3
	_, _, _, _, _, _ = fmt, os, strings, f2, o2, s2
}
`

const craftedOptions = `package vpkg

type cfg struct{}
type opt func(*cfg)

func a() opt     { return nil }
func b(int) opt  { return nil }
func c() opt     { return nil }
func newT(name string, opts ...opt) {}

func use() {
	newT("x", a(), b(1), a(), b(1), c(), c(), a())
	newT("y", b(2), a(), b(2), a())
}
`

func main() {
	shard := flag.Int("shard", 0, "shard index")
	nshard := flag.Int("nshard", 1, "number of shards")
	tier := flag.String("tier", "quick", "tier")
	out := flag.String("out", "", "result file")
	flag.Parse()
	bound := 1
	if *tier == "thorough" {
		bound = 2
	}
	verifmcrt.SetMapHook(hook)
	harness.Init()
	res := &result{SitesHit: map[string]int{}, SitesSeen: map[string]int{}, obs: map[string]bool{}}

	// scenario family 2: registry listing (site in getCheckersInfo)
	if *shard == 0 {
		explore(res, "GetCheckersInfo", 1, "GetCheckersInfo", func() string {
			var names []string
			for _, in := range linter.GetCheckersInfo() {
				names = append(names, in.Name+fmt.Sprint(in.Tags))
			}
			return strings.Join(names, "\n")
		})
	}

	// scenario family 3: the dynamic-rules checker: construction (rule file lists/globs, failOn values) and a run
	if *shard == 1%*nshard {
		ruleguardScenarios(res, bound)
	}

	// scenario family 1: analysis of programs on a long-lived full set
	infos := harness.Infos(nil)
	harness.ApplyParams(infos, harness.TestParams)
	plan, rec = nil, nil
	set, err := harness.NewSet(infos, "")
	if err != nil {
		fmt.Fprintln(os.Stderr, err)
		os.Exit(2)
	}
	// checker-company dimension: the dynamic-rules checker on its own long-lived set, every other checker
	// re-created per program on a fresh context in reverse order
	var rgSet *harness.Set
	var restInfos []*linter.CheckerInfo
	for _, in := range infos {
		if in.Name == "ruleguard" {
			if rgSet, err = harness.NewSet([]*linter.CheckerInfo{in}, ""); err != nil {
				fmt.Fprintln(os.Stderr, err)
				os.Exit(2)
			}
			continue
		}
		restInfos = append([]*linter.CheckerInfo{in}, restInfos...)
	}
	var progs []progenum.Prog
	add := func(p progenum.Prog) { progs = append(progs, p) }
	add(progenum.Prog{ID: "crafted|dupImports", Path: "vpkg", Files: []harness.File{{Name: "f.go", Src: craftedDupImports}}})
	add(progenum.Prog{ID: "crafted|options", Path: "vpkg", Files: []harness.File{{Name: "f.go", Src: craftedOptions}}})
	testdataProgs(add)
	progenum.Odd(func(p progenum.Prog) {
		if !strings.Contains(p.ID, "+") {
			add(p)
		}
	})
	if *tier == "thorough" {
		progenum.TypeShapes(add)
	}
	n := 0
	for i := range progs {
		if i%*nshard != *shard {
			continue
		}
		p := &progs[i]
		pk := harness.Load(p.Path, p.Files)
		if len(pk.Errs) > 0 && !(strings.HasPrefix(p.ID, "testdata|caseOrder")) {
			pk.Release()
			continue
		}
		n++
		files := map[string]string{}
		for _, f := range p.Files {
			files[f.Name] = f.Src
		}
		explore(res, p.ID, bound, map[string]interface{}{"kind": "program", "id": p.ID, "path": p.Path, "files": files}, func() string {
			d, crashes := set.VisitAll(pk)
			obs := harness.DiagStrings(d)
			for _, c := range crashes {
				obs = append(obs, "CRASH "+c.Checker+" "+c.Value)
			}
			return strings.Join(obs, "\n")
		})
		company(res, p.ID, set, rgSet, restInfos, pk, map[string]interface{}{"kind": "program", "id": p.ID, "path": p.Path, "files": files})
		pk.Release()
	}
	res.DistinctObs = len(res.obs)
	data, _ := json.MarshalIndent(res, "", " ")
	if *out != "" {
		os.WriteFile(*out, data, 0o644)
	} else {
		os.Stdout.Write(data)
	}
	harness.Cleanup()
}

func testdataProgs(emit func(progenum.Prog)) {
	for _, name := range harness.TestdataNames() {
		groups, err := harness.TestdataFiles(name)
		if err != nil {
			continue
		}
		var keys []string
		for k := range groups {
			keys = append(keys, k)
		}
		sort.Strings(keys)
		for _, k := range keys {
			emit(progenum.Prog{ID: "testdata|" + name + "|" + k, Fam: "testdata", Path: "github.com/go-critic/go-critic/checkers/testdata/" + name, Files: groups[k]})
		}
	}
}

func ruleguardScenarios(res *result, bound int) {
	root := os.Getenv("VERIF_ROOT")
	if root == "" {
		root = "/verif"
	}
	os.Chdir(root + "/mc") // rule files import the dsl package; it resolves through the harness module
	fx := root + "/fixtures/rules/"
	tsrc, err := os.ReadFile(fx + "target.go.txt")
	if err != nil {
		fmt.Fprintln(os.Stderr, err)
		os.Exit(2)
	}
	target := harness.LoadOne(string(tsrc))
	type rc struct{ rules, failOn string }
	cfgs := []rc{
		{fx + "overlap1.go," + fx + "overlap2.go", ""},
		{fx + "overlap2.go," + fx + "overlap1.go", ""},
		{fx + "overlap*.go", ""},
		{fx + "overlap1.go," + fx + "overlap2.go," + fx + "overlap3.go," + fx + "validA.go", "dsl"},
		{fx + "valid*.go," + fx + "overlap*.go", "all"},
		{fx + "validA.go", "zzz,yyy"},
		{fx + "validA.go," + fx + "syntaxerr.go," + fx + "badimport.go", ""},
		{fx + "validA.go," + fx + "syntaxerr.go," + fx + "badimport.go", "import,dsl"},
	}
	for _, c := range cfgs {
		c := c
		explore(res, "ruleguard|"+c.rules[len(fx)-1:]+"|failOn="+c.failOn, bound, map[string]interface{}{"kind": "ruleguard", "rules": c.rules, "failOn": c.failOn}, func() string {
			infos := harness.Infos([]string{"ruleguard"})
			infos[0].Params["rules"].Value = c.rules
			infos[0].Params["failOn"].Value = c.failOn
			defer func() {
				infos[0].Params["rules"].Value = ""
				infos[0].Params["failOn"].Value = ""
			}()
			log.SetOutput(io.Discard)
			defer log.SetOutput(os.Stderr)
			set, err := harness.NewSet(infos, "")
			if err != nil {
				return "init error: " + err.Error()
			}
			d, _ := set.VisitAll(target)
			return strings.Join(harness.DiagStrings(d), "\n")
		})
	}
}

// vinstr: source-to-source instrumenter. Reads the current go-critic sources, rewrites copies and
// emits a `go build -overlay` JSON; /repo itself is never edited.
//
//	vinstr -repo /repo -out <dir> -mcrt <dir with mcrt sources> [-maprange] [-sched]
//
// -maprange (R1): every `range` over a map-typed expression in the listed packages iterates over
// verifmcrt.MapKeys(m, site) instead: keys in canonical order, then permuted as the explorer dictates.
package main

import (
	"bytes"
	"encoding/json"
	"flag"
	"fmt"
	"go/ast"
	"go/format"
	"go/token"
	"go/types"
	"os"
	"path/filepath"
	"sort"
	"strings"

	"golang.org/x/tools/go/packages"
)

type site struct {
	ID   int    `json:"id"`
	Pos  string `json:"pos"`
	Key  string `json:"key_type"`
	Func string `json:"func"`
}

func main() {
	repo := flag.String("repo", "/repo", "go-critic checkout")
	out := flag.String("out", "", "output directory for rewritten copies and overlay.json")
	mcrt := flag.String("mcrt", "", "directory holding the mcrt package sources")
	mapRange := flag.Bool("maprange", false, "rewrite map ranges (R1)")
	sched := flag.Bool("sched", false, "rewrite go/chan struct{}/sync.WaitGroup/sync.Mutex in the CLI mains and the analyzer to the cooperative scheduler shims (R2)")
	extra := flag.String("extra", "", "JSON file with extra overlay Replace entries to merge")
	flag.Parse()
	if *out == "" {
		fmt.Fprintln(os.Stderr, "need -out")
		os.Exit(2)
	}
	os.MkdirAll(*out, 0o755)
	replace := map[string]string{}
	if *extra != "" {
		var ex struct{ Replace map[string]string }
		data, err := os.ReadFile(*extra)
		if err == nil && json.Unmarshal(data, &ex) == nil {
			for k, v := range ex.Replace {
				replace[k] = v
			}
		}
	}
	// virtual package verifmcrt
	if *mcrt != "" {
		ents, _ := os.ReadDir(*mcrt)
		for _, e := range ents {
			if strings.HasSuffix(e.Name(), ".go") {
				replace[filepath.Join(*repo, "verifmcrt", e.Name())] = filepath.Join(*mcrt, e.Name())
			}
		}
	}
	var sites []site
	if *mapRange || *sched {
		cfg := &packages.Config{
			Mode: packages.NeedName | packages.NeedFiles | packages.NeedCompiledGoFiles | packages.NeedSyntax | packages.NeedTypes | packages.NeedTypesInfo | packages.NeedImports,
			Dir:  *repo,
			Env:  append(os.Environ(), "GOFLAGS=-mod=mod", "GOPROXY=off", "GOSUMDB=off", "GOTOOLCHAIN=local"),
		}
		pkgs, err := packages.Load(cfg, "./linter", "./checkers", "./checkers/analyzer", "./checkers/internal/...", "./cmd/go-critic", "./cmd/gocritic")
		if err != nil {
			fmt.Fprintln(os.Stderr, "load:", err)
			os.Exit(2)
		}
		sort.Slice(pkgs, func(i, j int) bool { return pkgs[i].PkgPath < pkgs[j].PkgPath })
		for _, p := range pkgs {
			if len(p.Errors) > 0 {
				fmt.Fprintln(os.Stderr, "package errors:", p.PkgPath, p.Errors[0])
				os.Exit(2)
			}
			for i, f := range p.Syntax {
				fname := p.CompiledGoFiles[i]
				if strings.HasSuffix(fname, "_test.go") {
					continue
				}
				n := 0
				if *mapRange {
					n += rewriteMapRanges(p, f, &sites)
				}
				if *sched && (strings.HasSuffix(fname, "/check.go") || strings.HasSuffix(fname, "analyzer/run.go")) {
					n += rewriteSched(p, f)
				}
				if n == 0 {
					continue
				}
				var buf bytes.Buffer
				if err := format.Node(&buf, p.Fset, f); err != nil {
					fmt.Fprintln(os.Stderr, "format:", fname, err)
					os.Exit(2)
				}
				rel, _ := filepath.Rel(*repo, fname)
				dst := filepath.Join(*out, "src", rel)
				os.MkdirAll(filepath.Dir(dst), 0o755)
				os.WriteFile(dst, buf.Bytes(), 0o644)
				replace[fname] = dst
			}
		}
	}
	data, _ := json.MarshalIndent(map[string]interface{}{"Replace": replace}, "", " ")
	os.WriteFile(filepath.Join(*out, "overlay.json"), data, 0o644)
	sdata, _ := json.MarshalIndent(sites, "", " ")
	os.WriteFile(filepath.Join(*out, "sites.json"), sdata, 0o644)
	fmt.Printf("vinstr: %d map-range sites rewritten, %d overlay entries\n", len(sites), len(replace))
}

const mcrtPath = "github.com/go-critic/go-critic/verifmcrt"

// rewriteMapRanges rewrites every range over a map in f; returns the number of rewrites.
func rewriteMapRanges(p *packages.Package, f *ast.File, sites *[]site) int {
	n := 0
	var curFunc string
	process := func(rs *ast.RangeStmt) {
		t := p.TypesInfo.TypeOf(rs.X)
		if t == nil {
			return
		}
		mt, ok := t.Underlying().(*types.Map)
		if !ok {
			return
		}
		id := len(*sites) + 1
		pos := p.Fset.Position(rs.Pos())
		rel := pos.Filename
		if i := strings.Index(rel, "/go-critic/"); i >= 0 {
			rel = rel[i+len("/go-critic/"):]
		}
		*sites = append(*sites, site{ID: id, Pos: fmt.Sprintf("%s:%d", filepath.Base(filepath.Dir(pos.Filename))+"/"+filepath.Base(pos.Filename), pos.Line), Key: mt.Key().String(), Func: curFunc})
		n++
		// for K, V := range M { body }  ==>
		// { vmM := M; for _, vmK := range verifmcrt.MapKeys(vmM, id) { vmV, vmOK := vmM[vmK]; if !vmOK { continue }; K, V := vmK, vmV (or =); body } }
		mName := fmt.Sprintf("vm%dM", id)
		kName := fmt.Sprintf("vm%dK", id)
		vName := fmt.Sprintf("vm%dV", id)
		okName := fmt.Sprintf("vm%dOK", id)
		var pre []ast.Stmt
		pre = append(pre, &ast.AssignStmt{Lhs: []ast.Expr{ast.NewIdent(vName), ast.NewIdent(okName)}, Tok: token.DEFINE,
			Rhs: []ast.Expr{&ast.IndexExpr{X: ast.NewIdent(mName), Index: ast.NewIdent(kName)}}})
		pre = append(pre, &ast.IfStmt{Cond: &ast.UnaryExpr{Op: token.NOT, X: ast.NewIdent(okName)}, Body: &ast.BlockStmt{List: []ast.Stmt{&ast.BranchStmt{Tok: token.CONTINUE}}}})
		pre = append(pre, &ast.AssignStmt{Lhs: []ast.Expr{ast.NewIdent("_")}, Tok: token.ASSIGN, Rhs: []ast.Expr{ast.NewIdent(vName)}})
		isBlank := func(e ast.Expr) bool {
			if e == nil {
				return true
			}
			id, ok := e.(*ast.Ident)
			return ok && id.Name == "_"
		}
		if !isBlank(rs.Key) {
			pre = append(pre, &ast.AssignStmt{Lhs: []ast.Expr{rs.Key}, Tok: rs.Tok, Rhs: []ast.Expr{ast.NewIdent(kName)}})
			if rs.Tok == token.DEFINE {
				pre = append(pre, &ast.AssignStmt{Lhs: []ast.Expr{ast.NewIdent("_")}, Tok: token.ASSIGN, Rhs: []ast.Expr{rs.Key}})
			}
		}
		if !isBlank(rs.Value) {
			pre = append(pre, &ast.AssignStmt{Lhs: []ast.Expr{rs.Value}, Tok: rs.Tok, Rhs: []ast.Expr{ast.NewIdent(vName)}})
			if rs.Tok == token.DEFINE {
				pre = append(pre, &ast.AssignStmt{Lhs: []ast.Expr{ast.NewIdent("_")}, Tok: token.ASSIGN, Rhs: []ast.Expr{rs.Value}})
			}
		}
		body := &ast.BlockStmt{List: append(pre, rs.Body.List...)}
		call := &ast.CallExpr{Fun: &ast.SelectorExpr{X: ast.NewIdent("verifmcrt"), Sel: ast.NewIdent("MapKeys")},
			Args: []ast.Expr{ast.NewIdent(mName), &ast.BasicLit{Kind: token.INT, Value: fmt.Sprint(id)}}}
		newRange := &ast.RangeStmt{Key: ast.NewIdent("_"), Value: ast.NewIdent(kName), Tok: token.DEFINE, X: call, Body: body}
		// replace in place: turn rs into `for _, vmK := range MapKeys(...)` with an outer assignment handled by caller
		*rs = *newRange
		// stash the map expression for the caller
		pendingInit[rs] = &ast.AssignStmt{Lhs: []ast.Expr{ast.NewIdent(mName)}, Tok: token.DEFINE, Rhs: []ast.Expr{origX[rs]}}
	}
	_ = process
	// Walk: we need statement lists to wrap a range statement into a block with the map evaluated once.
	ast.Inspect(f, func(node ast.Node) bool {
		if fd, ok := node.(*ast.FuncDecl); ok {
			curFunc = fd.Name.Name
		}
		var lists []*[]ast.Stmt
		switch b := node.(type) {
		case *ast.BlockStmt:
			lists = append(lists, &b.List)
		case *ast.CaseClause:
			lists = append(lists, &b.Body)
		case *ast.CommClause:
			lists = append(lists, &b.Body)
		}
		for _, lp := range lists {
			for i, st := range *lp {
				target := st
				var label *ast.LabeledStmt
				if ls, ok := st.(*ast.LabeledStmt); ok {
					label = ls
					target = ls.Stmt
				}
				rs, ok := target.(*ast.RangeStmt)
				if !ok {
					continue
				}
				t := p.TypesInfo.TypeOf(rs.X)
				if t == nil {
					continue
				}
				if _, isMap := t.Underlying().(*types.Map); !isMap {
					continue
				}
				origX[rs] = rs.X
				process(rs)
				init := pendingInit[rs]
				var inner ast.Stmt = rs
				if label != nil {
					// keep the label on the loop so labelled break/continue still work
					inner = &ast.LabeledStmt{Label: label.Label, Stmt: rs}
				}
				(*lp)[i] = &ast.BlockStmt{List: []ast.Stmt{init, inner}}
			}
		}
		return true
	})
	if n > 0 {
		addImport(f, mcrtPath)
	}
	return n
}

var (
	pendingInit = map[*ast.RangeStmt]*ast.AssignStmt{}
	origX       = map[*ast.RangeStmt]ast.Expr{}
)

func addImport(f *ast.File, path string) {
	spec := &ast.ImportSpec{Path: &ast.BasicLit{Kind: token.STRING, Value: fmt.Sprintf("%q", path)}}
	decl := &ast.GenDecl{Tok: token.IMPORT, Specs: []ast.Spec{spec}}
	// put right after the package clause (before other decls); imports must come first
	f.Decls = append([]ast.Decl{decl}, f.Decls...)
	f.Imports = append(f.Imports, spec)
}

// rewriteSched replaces the concurrency primitives of one file by the scheduler shims.
func rewriteSched(p *packages.Package, f *ast.File) int {
	n := 0
	isSignalChan := func(e ast.Expr) bool {
		t := p.TypesInfo.TypeOf(e)
		if t == nil {
			return false
		}
		ch, ok := t.Underlying().(*types.Chan)
		if !ok {
			return false
		}
		st, ok := ch.Elem().Underlying().(*types.Struct)
		return ok && st.NumFields() == 0
	}
	mc := func(name string) ast.Expr {
		return &ast.SelectorExpr{X: ast.NewIdent("verifmcrt"), Sel: ast.NewIdent(name)}
	}
	rewriteStmtList := func(list []ast.Stmt) {
		for i, st := range list {
			switch s := st.(type) {
			case *ast.GoStmt:
				if fl, ok := s.Call.Fun.(*ast.FuncLit); ok && len(s.Call.Args) == 0 {
					list[i] = &ast.ExprStmt{X: &ast.CallExpr{Fun: mc("Go"), Args: []ast.Expr{fl}}}
					n++
				} else {
					fmt.Fprintf(os.Stderr, "vinstr: go statement not rewritten at %s\n", p.Fset.Position(s.Pos()))
				}
			case *ast.SendStmt:
				if isSignalChan(s.Chan) {
					list[i] = &ast.ExprStmt{X: &ast.CallExpr{Fun: &ast.SelectorExpr{X: s.Chan, Sel: ast.NewIdent("Send")}}}
					n++
				}
			case *ast.ExprStmt:
				if u, ok := s.X.(*ast.UnaryExpr); ok && u.Op == token.ARROW && isSignalChan(u.X) {
					list[i] = &ast.ExprStmt{X: &ast.CallExpr{Fun: &ast.SelectorExpr{X: u.X, Sel: ast.NewIdent("Recv")}}}
					n++
				}
			}
		}
	}
	ast.Inspect(f, func(node ast.Node) bool {
		switch x := node.(type) {
		case *ast.BlockStmt:
			rewriteStmtList(x.List)
		case *ast.CaseClause:
			rewriteStmtList(x.Body)
		case *ast.CallExpr:
			if id, ok := x.Fun.(*ast.Ident); ok && id.Name == "make" && len(x.Args) == 2 && isSignalChan(x) {
				x.Fun = mc("NewSema")
				x.Args = x.Args[1:]
				n++
			}
		case *ast.SelectorExpr:
			if id, ok := x.X.(*ast.Ident); ok && id.Name == "sync" && (x.Sel.Name == "WaitGroup" || x.Sel.Name == "Mutex") {
				if _, isPkg := p.TypesInfo.Uses[id].(*types.PkgName); isPkg {
					id.Name = "verifmcrt"
					n++
				}
			}
		}
		return true
	})
	if n > 0 {
		hasImport := false
		for _, d := range f.Decls {
			if gd, ok := d.(*ast.GenDecl); ok && gd.Tok == token.IMPORT {
				for _, sp := range gd.Specs {
					if sp.(*ast.ImportSpec).Path.Value == fmt.Sprintf("%q", mcrtPath) {
						hasImport = true
					}
				}
			}
		}
		if !hasImport {
			addImport(f, mcrtPath)
		}
		// keep the sync import used
		f.Decls = append(f.Decls, &ast.GenDecl{Tok: token.VAR, Specs: []ast.Spec{&ast.ValueSpec{Names: []*ast.Ident{ast.NewIdent("_")}, Values: []ast.Expr{&ast.SelectorExpr{X: ast.NewIdent("sync"), Sel: ast.NewIdent("NewCond")}}}}})
	}
	return n
}

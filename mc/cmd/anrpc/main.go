//go:build verif

// anrpc drives the real go/analysis analyzer of go-critic in-process through its public surface
// (Analyzer.Flags, Analyzer.Run, DisableCache) plus the overlay-added latch hooks; requests arrive as
// JSON lines on stdin. Built with -tags verif -overlay.
package main

import (
	"bufio"
	"bytes"
	"encoding/json"
	"flag"
	"fmt"
	"go/ast"
	"go/importer"
	"go/parser"
	"go/token"
	"go/types"
	"io"
	"log"
	"os"
	"regexp"
	"runtime"
	"runtime/debug"
	"strings"

	"github.com/go-critic/go-critic/checkers"
	"github.com/go-critic/go-critic/checkers/analyzer"
	"github.com/go-critic/go-critic/linter"
	"golang.org/x/tools/go/analysis"
)

type req struct {
	Op     string   `json:"op"`
	Args   []string `json:"args,omitempty"`
	Cache  bool     `json:"cache,omitempty"` // use the latch (DisableCache=false)
	Reset  bool     `json:"reset,omitempty"` // reset the latch first
	Src    string   `json:"src,omitempty"`
	Passes int      `json:"passes,omitempty"`
	Fixes  bool     `json:"fixes,omitempty"`
}

type passResult struct {
	Diags []string `json:"diags"`
	Err   string   `json:"err,omitempty"`
	Panic string   `json:"panic,omitempty"`
}

type resp struct {
	Selected    []string            `json:"selected"`
	Constructed []string            `json:"constructed"`
	Registered  []string            `json:"registered,omitempty"`
	Registry    map[string][]string `json:"registry,omitempty"`
	Passes      []passResult        `json:"passes"`
	ParseErr    string              `json:"parse_err,omitempty"`
	Log         string              `json:"log,omitempty"`
	Cached      bool                `json:"cached"`
	ErrLatched  bool                `json:"err_latched"`
}

var enabledRE = regexp.MustCompile(`debug: (\w+) is enabled`)

func main() {
	log.SetFlags(0)
	in := bufio.NewReaderSize(os.Stdin, 1<<20)
	out := bufio.NewWriter(os.Stdout)
	enc := json.NewEncoder(out)
	for {
		line, err := in.ReadBytes('\n')
		if len(bytes.TrimSpace(line)) > 0 {
			var r req
			if jerr := json.Unmarshal(line, &r); jerr != nil {
				enc.Encode(resp{ParseErr: "bad request: " + jerr.Error()})
			} else {
				enc.Encode(serve(&r))
			}
			out.Flush()
		}
		if err != nil {
			if err != io.EOF {
				fmt.Fprintln(os.Stderr, err)
			}
			return
		}
	}
}

func mkPass(src string, report func(analysis.Diagnostic)) (*analysis.Pass, *token.FileSet) {
	fset := token.NewFileSet()
	if src == "" {
		src = "package p\n"
	}
	f, err := parser.ParseFile(fset, "p.go", src, parser.ParseComments)
	if err != nil {
		panic(err)
	}
	info := &types.Info{
		Types: map[ast.Expr]types.TypeAndValue{}, Defs: map[*ast.Ident]types.Object{}, Uses: map[*ast.Ident]types.Object{},
		Implicits: map[ast.Node]types.Object{}, Selections: map[*ast.SelectorExpr]*types.Selection{}, Scopes: map[ast.Node]*types.Scope{},
		Instances: map[*ast.Ident]types.Instance{},
	}
	conf := types.Config{Importer: importer.Default(), Error: func(error) {}}
	pkg, _ := conf.Check("p", fset, []*ast.File{f}, info)
	return &analysis.Pass{
		Analyzer: analyzer.Analyzer, Fset: fset, Files: []*ast.File{f}, Pkg: pkg, TypesInfo: info,
		TypesSizes: types.SizesFor("gc", runtime.GOARCH), Report: report,
	}, fset
}

func serve(r *req) (out resp) {
	var logbuf bytes.Buffer
	log.SetOutput(&logbuf)
	defer func() {
		out.Log = logbuf.String()
		log.SetOutput(os.Stderr)
	}()
	switch r.Op {
	case "listed":
		// what the registry lists in a process that links the analysis front-end (whose package initialisation
		// already took a snapshot) once the embedded rules have been registered
		if err := checkers.InitEmbeddedRules(); err != nil && !strings.Contains(err.Error(), "already registered") {
			out.ParseErr = err.Error()
			return
		}
		for _, info := range linter.GetCheckersInfo() {
			out.Registered = append(out.Registered, info.Name)
		}
		return
	case "registered":
		out.Registered = analyzer.VerifRegistered()
		out.Registry = analyzer.VerifRegistry()
		return
	}
	// reset every flag to its default, then parse the request's flags with the real FlagSet
	fs := &analyzer.Analyzer.Flags
	fs.VisitAll(func(f *flag.Flag) { f.Value.Set(f.DefValue) })
	fs.Init("go-critic-analysis", flag.ContinueOnError)
	fs.SetOutput(&logbuf)
	if err := fs.Parse(r.Args); err != nil {
		out.ParseErr = err.Error()
		return
	}
	analyzer.DisableCache = !r.Cache
	if r.Reset {
		analyzer.VerifReset()
	}
	checkers.VerifProbeConstructed()
	n := r.Passes
	if n <= 0 {
		n = 1
	}
	for i := 0; i < n; i++ {
		var pr passResult
		func() {
			defer func() {
				if rec := recover(); rec != nil {
					pr.Panic = fmt.Sprint(rec) + "\n" + string(debug.Stack())
				}
			}()
			var fset *token.FileSet
			var pass *analysis.Pass
			pass, fset = mkPass(r.Src, func(d analysis.Diagnostic) {
				line := fmt.Sprintf("%s: %s", fset.Position(d.Pos), d.Message)
				if r.Fixes {
					for _, sf := range d.SuggestedFixes {
						for _, te := range sf.TextEdits {
							line += fmt.Sprintf(" [fix %d-%d %q]", fset.Position(te.Pos).Offset, fset.Position(te.End).Offset, string(te.NewText))
						}
						line += fmt.Sprintf(" {fixes=%d edits=%d}", len(d.SuggestedFixes), len(sf.TextEdits))
					}
				}
				pr.Diags = append(pr.Diags, line)
			})
			_, err := analyzer.Analyzer.Run(pass)
			if err != nil {
				pr.Err = err.Error()
			}
		}()
		out.Passes = append(out.Passes, pr)
	}
	seen := map[string]bool{}
	for _, m := range enabledRE.FindAllStringSubmatch(logbuf.String(), -1) {
		if !seen[m[1]] {
			seen[m[1]] = true
			out.Selected = append(out.Selected, m[1])
		}
	}
	out.Constructed = checkers.VerifProbeConstructed()
	_ = strings.TrimSpace
	return
}

// Package evidence writes evidence files and matches violations against the committed
// known-findings list.
package evidence

import (
	"bufio"
	"encoding/json"
	"fmt"
	"os"
	"path/filepath"
	"sort"
	"strconv"
	"strings"
	"sync"
	"time"
)

// Root is /verif (overridable for tests).
var Root = func() string {
	if v := os.Getenv("VERIF_ROOT"); v != "" {
		return v
	}
	return "/verif"
}()

type Finding struct {
	Property string `json:"property"`
	Key      string `json:"key"`
	Status   string `json:"status"` // known | fixed
	Commit   string `json:"commit,omitempty"`
	Witness  string `json:"witness,omitempty"`
	What     string `json:"what"`
}

// Violation is one failing case.
type Violation struct {
	Key      string      // root-cause shaped key
	What     string      // human description
	Replay   interface{} // self-contained case, written to evidence/replay
	Observed string
}

type Run struct {
	Property string
	Tier     string
	Seed     int64
	Level    string
	start    time.Time

	mu          sync.Mutex
	Coverage    map[string]interface{}
	Assumptions []string
	viol        map[string]*Violation // first violation per key
	violCount   map[string]int
	known       map[string]Finding
	samples     []interface{}
	Evaluations int64
	nontrivial  map[string]struct{}
	Exhaustive  bool
	caps        []string
}

func Tier() string {
	t := os.Getenv("VERIF_TIER")
	if t == "thorough" {
		return "thorough"
	}
	return "quick"
}

func Seed() int64 {
	s, _ := strconv.ParseInt(os.Getenv("VERIF_SEED"), 10, 64)
	return s
}

func New(property, level string) *Run {
	r := &Run{
		Property: property, Tier: Tier(), Seed: Seed(), Level: level, start: time.Now(),
		Coverage: map[string]interface{}{}, viol: map[string]*Violation{}, violCount: map[string]int{},
		known: map[string]Finding{}, nontrivial: map[string]struct{}{}, Exhaustive: true,
	}
	for _, f := range LoadFindings() {
		if f.Property == property && f.Status == "known" {
			r.known[f.Key] = f
		}
	}
	return r
}

func LoadFindings() []Finding {
	var out []Finding
	f, err := os.Open(filepath.Join(Root, "known_findings.jsonl"))
	if err != nil {
		return nil
	}
	defer f.Close()
	sc := bufio.NewScanner(f)
	sc.Buffer(make([]byte, 1<<20), 1<<24)
	for sc.Scan() {
		line := strings.TrimSpace(sc.Text())
		if line == "" || strings.HasPrefix(line, "#") || strings.HasPrefix(line, "fixed:") {
			// "fixed: property=<id> <commit> <what failed>" entries document repaired defects and suppress nothing
			continue
		}
		var fd Finding
		if err := json.Unmarshal([]byte(line), &fd); err != nil {
			fmt.Fprintf(os.Stderr, "known_findings.jsonl: bad line: %v\n", err)
			os.Exit(2)
		}
		out = append(out, fd)
	}
	return out
}

// Eval counts one evaluated case.
func (r *Run) Eval(n int) {
	r.mu.Lock()
	r.Evaluations += int64(n)
	r.mu.Unlock()
}

// Nontrivial records a distinct non-trivial case by identity.
func (r *Run) Nontrivial(id string) {
	r.mu.Lock()
	r.nontrivial[id] = struct{}{}
	r.mu.Unlock()
}

func (r *Run) NontrivialCount() int {
	r.mu.Lock()
	defer r.mu.Unlock()
	return len(r.nontrivial)
}

// Sample keeps up to 8 written-out cases.
func (r *Run) Sample(s interface{}) {
	r.mu.Lock()
	if len(r.samples) < 8 {
		r.samples = append(r.samples, s)
	}
	r.mu.Unlock()
}

// Cap records that a bound/cap was hit: the run is not exhaustive.
func (r *Run) Cap(what string) {
	r.mu.Lock()
	r.Exhaustive = false
	r.caps = append(r.caps, what)
	r.mu.Unlock()
}

func (r *Run) Set(k string, v interface{}) {
	r.mu.Lock()
	r.Coverage[k] = v
	r.mu.Unlock()
}

func (r *Run) Add(k string, n int64) {
	r.mu.Lock()
	cur, _ := r.Coverage[k].(int64)
	r.Coverage[k] = cur + n
	r.mu.Unlock()
}

func (r *Run) Assume(s string) { r.Assumptions = append(r.Assumptions, s) }

// Violate records a violation (first per key is kept as the replay artefact).
func (r *Run) Violate(v Violation) {
	r.mu.Lock()
	defer r.mu.Unlock()
	r.violCount[v.Key]++
	if _, ok := r.viol[v.Key]; !ok {
		vv := v
		r.viol[v.Key] = &vv
	}
}

func sanitize(s string) string {
	var b strings.Builder
	for _, c := range s {
		switch {
		case c >= 'a' && c <= 'z', c >= 'A' && c <= 'Z', c >= '0' && c <= '9', c == '-', c == '_', c == '.':
			b.WriteRune(c)
		default:
			b.WriteByte('_')
		}
	}
	out := b.String()
	if len(out) > 100 {
		out = out[:100]
	}
	return out
}

// Finish writes the evidence file, prints KNOWN-FINDING / VIOLATION lines and returns the exit code.
func (r *Run) Finish() int {
	r.mu.Lock()
	defer r.mu.Unlock()
	keys := make([]string, 0, len(r.viol))
	for k := range r.viol {
		keys = append(keys, k)
	}
	sort.Strings(keys)
	newViol := 0
	var knownSeen, newKeys []string
	replayDir := filepath.Join(Root, "evidence", "replay")
	for _, k := range keys {
		v := r.viol[k]
		if f, ok := r.known[k]; ok {
			fmt.Printf("KNOWN-FINDING: property=%s %s [%s] (%d cases)\n", r.Property, f.What, k, r.violCount[k])
			knownSeen = append(knownSeen, k)
			continue
		}
		newViol++
		newKeys = append(newKeys, k)
		os.MkdirAll(replayDir, 0o755)
		path := filepath.Join(replayDir, r.Property+"-"+sanitize(k)+".json")
		data, _ := json.MarshalIndent(map[string]interface{}{
			"property": r.Property, "key": k, "what": v.What, "observed": v.Observed, "case": v.Replay,
		}, "", " ")
		os.WriteFile(path, data, 0o644)
		fmt.Printf("VIOLATION property=%s replay=%s\n", r.Property, path)
		fmt.Printf("  key=%s\n  what=%s\n  observed=%s\n  cases=%d\n", k, v.What, firstLines(v.Observed, 6), r.violCount[k])
	}
	// known findings that did not reproduce are reported for information only
	var stale []string
	for k := range r.known {
		if _, ok := r.viol[k]; !ok {
			stale = append(stale, k)
		}
	}
	sort.Strings(stale)
	for _, k := range stale {
		fmt.Printf("note: known finding not reproduced in this run (tier %s): %s\n", r.Tier, k)
	}

	cov := r.Coverage
	cov["evaluations"] = r.Evaluations
	cov["distinct_nontrivial"] = len(r.nontrivial)
	if len(r.samples) == 0 {
		r.samples = []interface{}{"(no sample recorded)"}
	}
	cov["samples"] = r.samples
	cov["exhaustive"] = r.Exhaustive
	if len(r.caps) > 0 {
		cov["caps_hit"] = r.caps
	}
	cov["known_findings_reproduced"] = knownSeen
	cov["new_violation_keys"] = newKeys
	ev := map[string]interface{}{
		"property_id": r.Property, "tier": r.Tier, "seed": r.Seed, "level": r.Level,
		"coverage": cov, "assumptions": r.Assumptions,
		"wall_s":     time.Since(r.start).Seconds(),
		"violations": newViol,
	}
	if r.Assumptions == nil {
		ev["assumptions"] = []string{}
	}
	data, err := json.MarshalIndent(ev, "", " ")
	if err != nil {
		fmt.Fprintf(os.Stderr, "evidence marshal: %v\n", err)
		return 2
	}
	os.MkdirAll(filepath.Join(Root, "evidence"), 0o755)
	if err := os.WriteFile(filepath.Join(Root, "evidence", r.Property+".json"), append(data, '\n'), 0o644); err != nil {
		fmt.Fprintf(os.Stderr, "evidence write: %v\n", err)
		return 2
	}
	fmt.Printf("%s %s: evaluations=%d nontrivial=%d exhaustive=%v known=%d new=%d wall=%.1fs\n",
		r.Property, r.Tier, r.Evaluations, len(r.nontrivial), r.Exhaustive, len(knownSeen), newViol, time.Since(r.start).Seconds())
	if newViol > 0 {
		return 1
	}
	if r.Evaluations == 0 || len(r.nontrivial) < 2 {
		fmt.Fprintf(os.Stderr, "%s: vacuous run (evaluations=%d nontrivial=%d): check is broken\n", r.Property, r.Evaluations, len(r.nontrivial))
		return 2
	}
	return 0
}

func firstLines(s string, n int) string {
	lines := strings.Split(s, "\n")
	if len(lines) > n {
		lines = append(lines[:n], "...")
	}
	return strings.Join(lines, "\n    ")
}

// ViolationKeys returns the set of violation keys recorded so far (used by replay).
func (r *Run) ViolationKeys() map[string]bool {
	r.mu.Lock()
	defer r.mu.Unlock()
	out := map[string]bool{}
	for k := range r.viol {
		out[k] = true
	}
	return out
}

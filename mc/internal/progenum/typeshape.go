package progenum

import (
	"fmt"
	"strings"
)

// typeShapes declare a type T (and helpers) in recursive / unusual shapes.
var typeShapes = []struct{ id, decl string }{
	{"plain", "type T struct{ a int }"},
	{"selfEmbedPtr", "type T struct{ *T }"},
	{"selfFieldPtr", "type T struct{ next *T; a [256]byte }"},
	{"mutualEmbed", "type T struct{ *U }\ntype U struct{ *T }"},
	{"mutualEmbedIface", "type T struct{ I }\ntype I interface{ M() T }"},
	{"selfSlice", "type T []T"},
	{"selfMap", "type T map[string]T"},
	{"selfFunc", "type T func() T"},
	{"selfIface", "type T interface{ M() T }"},
	{"selfChan", "type T chan T"},
	{"ptrNamed", "type S struct{ a int }\ntype T *S"},
	{"ifaceEmbed", "type J interface{ Exec(string, ...interface{}) (int, error) }\ntype T struct{ J }"},
	{"ifaceAlias", "type J = interface{ Exec(string, ...interface{}) (int, error) }\ntype T struct{ J }"},
	{"aliasPtr", "type S struct{ *S; a int }\ntype T = S"},
	{"funcFields", "type T struct{ fn func() int; Query func(string) (*Rows, error); Lock, Unlock func(); String func() string; Write func([]byte) (int, error) }"},
	{"generic", "type G[P any] struct{ next *G[P]; v P }\ntype T = G[int]"},
	{"genericEmbed", "type G[P any] struct{ *G[P]; v P }\ntype T struct{ G[string] }"},
	{"arrayOfSelfPtr", "type T struct{ kids [4]*T; big [1024]int }"},
}

// members add methods on T (where the shape permits methods).
var typeMembers = []struct{ id, decl string }{
	{"none", ""},
	{"query", "func (t T) Query(q string, args ...interface{}) (*Rows, error) { return nil, nil }\nfunc (t T) QueryContext(c int, q string) (*Rows, error) { return nil, nil }"},
	{"queryExec", "func (t T) Query(q string, args ...interface{}) (*Rows, error) { return nil, nil }\nfunc (t T) Exec(q string, args ...interface{}) (int, error) { return 0, nil }"},
	{"ptrMethods", "func (t *T) Query(q string) (*Rows, error) { return nil, nil }\nfunc (t *T) fn() int { return 0 }\nfunc (t *T) Lock() {}\nfunc (t *T) Unlock() {}"},
	{"stringer", "func (t T) String() string { return \"\" }\nfunc (t T) Error() string { return \"\" }\nfunc (t T) Write(p []byte) (int, error) { return 0, nil }\nfunc (t T) WriteString(s string) (int, error) { return 0, nil }"},
	{"valMethods", "func (t T) fn() int { return 0 }\nfunc (t T) Lock() {}\nfunc (t T) Unlock() {}\nfunc (t T) Len() int { return 0 }\nfunc (t T) Less(i, j int) bool { return false }\nfunc (t T) Swap(i, j int) {}"},
}

var typeUses = []string{
	"func use(t T) { _, err := t.Query(\"x\"); _ = err }",
	"func use(t T) { t.Query(\"x\") }",
	"func use(t *T) { _, _ = t.Query(\"x\") }",
	"func use(t T) (T, int) { return t, t.fn() }",
	"func use(t *T) (*T, int) { return t, t.fn() }",
	"func use() (T, int) { var x T; return x, x.fn() }",
	"func use(t T, ts []T, m map[string]T) { for _, x := range ts { _ = x }; for _, x := range m { _ = x } }",
	"func use(t T) T { return t }",
	"func use() { _ = *new(T); var z T; _ = z }",
	"func use(t T) { t.Lock(); t.Unlock() }",
	"func use(t T) { t.Lock(); defer t.Lock() }",
	"func use(t T, b []byte) { t.Write([]byte(\"a\")); t.WriteString(string(b)) }",
	"func use(t T) string { return fmt.Sprint(t) + fmt.Sprintf(\"%s\", t) + t.String() }",
	"func use(t, u T) bool { return t == u || t == t }",
	"func use(t T) { switch interface{}(t).(type) { case T: case interface{}: case nil: } }",
	"func use(v interface{}) { if t, ok := v.(T); ok { _ = t }; switch x := v.(type) { case T: _ = x; case *T: _ = x } }",
	"func use(t T) { sort.Slice([]T{t}, func(i, j int) bool { return i < j }); sort.Sort(t) }",
	"func use(t T) { var mu sync.Mutex; mu.Lock(); _ = t; mu.Unlock() }",
	"func use(t T) { _ = append([]T{}, t); xs := []T{}; xs = append(xs, t); xs = append(xs, t) }",
	"func use(t T) (r T, err error) { defer func() { r = t }(); return }",
}

// TypeShapes emits shape x members x use (ill-typed combinations are dropped by the caller).
func TypeShapes(emit func(Prog)) {
	for _, sh := range typeShapes {
		for _, mb := range typeMembers {
			for ui, use := range typeUses {
				var imports []string
				for _, p := range []string{"fmt", "sort", "sync"} {
					if strings.Contains(use, p+".") {
						imports = append(imports, p)
					}
				}
				src := "package vpkg\n\n"
				for _, im := range imports {
					src += "import \"" + im + "\"\n"
				}
				src += "\ntype Rows struct{}\n\n" + sh.decl + "\n\n" + mb.decl + "\n\n" + use + "\n"
				emit(one(fmt.Sprintf("typeshape|%s|%s|%d", sh.id, mb.id, ui), "typeshape", src, map[string]string{"shape": sh.id, "members": mb.id}))
			}
		}
	}
}

package progenum

import (
	"fmt"
	"strings"

	"verif/mc/internal/harness"
)

// oddSnippets are top-level declaration groups; each is analysed alone and in every ordered pair
// (so declarations meet each other in one file).
var oddSnippets = []string{
	// parenthesised receivers and types
	"type T1 struct{ x int }\nfunc (t (T1)) M1() int { return t.x }\nfunc (t *(T1)) M2() int { return t.x }\nfunc (t (*T1)) M3() int { return t.x }\nfunc ((T1)) M4() {}\nfunc (*T1) M5() {}\nfunc (_ T1) M6() {}",
	"type T2 (struct{ a (int); b *(int); c [](int); d map[(string)](int); e (func(int) int) })\nvar v2 (T2)\nvar x2 = (*T2)(nil)\nvar y2 = ([]int)(nil)",
	"type big3 struct{ a [2048]byte }\nfunc (b (big3)) M() {}\nfunc f3(b (big3), c *(big3)) (r (big3)) { return }\nfunc g3(bs [](big3)) { for _, b := range bs { _ = b }; for i := range bs { _ = i }; for range bs { } }",
	// function-valued fields and calls through them
	"type T4 struct{ f func(int) int; g func() (int, error); h func(...int); append func([]int, ...int) []int; len func(string) int; new func() *int }\nfunc use4(t T4, p *T4) { _ = t.f(1); _, _ = t.g(); t.h(); t.h(1, 2); xs := t.append(nil, 1); _ = xs; _ = t.len(\"\"); _ = *t.new(); _ = p.f(2); defer t.h(); go p.h(1) }",
	"type T5 struct{ Compile func(string) (*int, error); MustCompile func(string) *int; Join func(...string) string; Slice func(interface{}, func(i, j int) bool); Exit func(int); Fatal func(...interface{}) }\nfunc use5(regexp, filepath, sort, os, log T5) { _, _ = regexp.Compile(\"a|b\"); _ = regexp.MustCompile(\"[a]\"); _ = filepath.Join(\"a/b\", \"c\"); xs := []int{}; sort.Slice(xs, func(i, j int) bool { return xs[i] < xs[j] }); defer os.Exit(1); log.Fatal(1); os.Exit(2) }",
	// generics
	"type G6[T any] struct{ v T; vs []T; m map[string]T }\nfunc (g G6[T]) Get() T { return g.v }\nfunc (g *G6[T]) Set(v T) { g.v = v }\nfunc F6[T any, U comparable](t T, u U, ts []T) (T, U) { for _, x := range ts { _ = x }; return t, u }\nfunc H6[T ~int | ~string](a, b T) bool { return a < b }\nfunc use6() { var g G6[int]; _ = g.Get(); g.Set(1); _, _ = F6(1, \"a\", nil); _ = H6(1, 2); _ = H6[string](\"a\", \"b\"); f := F6[int, int]; _ = f }",
	"type N7[T any] struct{ next *N7[T]; val T; arr [64]T }\nfunc sum7[T int | float64](xs []T) (s T) { for _, x := range xs { s += x }; return }\nfunc big7[T any](n N7[T], ns []N7[T]) { for _, x := range ns { _ = x }; _ = *new(T); _ = *new(N7[T]); var z T; _ = z }\ntype I7[T any] interface{ M(T) T }\ntype C7 interface{ ~int | ~uint; String() string }",
	// blank identifiers everywhere
	"var _ = 1\nvar _, _ = 1, 2\nconst _ = 3\ntype _ struct{}\ntype _ int\nfunc _() {}\nfunc _(_ int, _ string) (_ int, _ error) { return }\nfunc b8(_, _ int) { _, _ = 1, 2; for _, _ = range []int{} { }; for _ = range []int{} { }; var _ int; var _, _ = 1, 2; _ = func(_ int) {} }\ntype S8 struct{ _ int; _, _ string }",
	// body-less functions and empty constructs
	"func ext9(x int) int\nfunc ext9b()\nfunc ext9c(a, b [4096]byte) (c [4096]byte)\ntype E9 struct{}\ntype I9 interface{}\nvar ()\nconst ()\ntype ()\nfunc empty9() { switch { }; switch x := 1; x { }; select { }; for { break }; { }; if true { } else { }; var i interface{}; switch i.(type) { }; switch y := i.(type) { default: _ = y } }",
	// labels, goto
	"func l10() { goto end; end: ; L1: for { break L1 }; L2: switch { case true: break L2 }; L3: for i := 0; i < 1; i++ { continue L3 }; L4: { goto L4 } }",
	// type switches with nil, multi-value range, method expressions and values
	"type T11 struct{}\nfunc (T11) M(int) int { return 0 }\nfunc (*T11) P() {}\ntype I11 interface{ M(int) int }\nfunc ts11(v interface{}, e error) { switch v.(type) { case nil: case int, string: case interface{}: case error: case *T11, T11: case I11: }; switch x := v.(type) { case nil: _ = x; case interface{}: _ = x; case error: _ = x }; switch e.(type) { case nil: case interface{ Error() string }: }; f := T11.M; _ = f(T11{}, 1); g := (*T11).P; g(nil); h := T11{}.M; _ = h(1); k := (&T11{}).P; k(); _ = T11.M(T11{}, 2); (*T11).P(&T11{}); _ = I11.M(T11{}, 1) }",
	"func r12(m map[string][]int, ch chan int, s string, a [3]int, pa *[3]int, n int) { for k, v := range m { _, _ = k, v }; for k := range m { _ = k }; for v := range ch { _ = v }; for i, r := range s { _, _ = i, r }; for i, x := range a { _, _ = i, x }; for i, x := range pa { _, _ = i, x }; for i := range pa { _ = i }; for range ch { }; var k string; var v []int; for k, v = range m { }; _, _ = k, v }",
	// multi-value forwarding
	"func two13() (int, int) { return 1, 2 }\nfunc three13() ([]int, int, int) { return nil, 1, 2 }\nfunc take13(a, b int) int { return a }\nfunc takev13(xs []int, ys ...int) []int { return xs }\nfunc se13() (string, error) { return \"\", nil }\nfunc use13() (string, error) { _ = take13(two13()); xs := takev13(three13()); _ = xs; xs = append(three13()); a, b := two13(); _, _ = a, b; println(two13()); return se13() }",
	// shadowed builtins in one place
	"func sh14(append func(...int) int, new func() *int, len, cap int, copy func(), nil *int, true bool, string int, int float64, error int) { _ = append(); _ = append(1, 2); _ = *new(); _ = len + cap; copy(); _ = nil == nil; _ = true; _ = string + 1; _ = int; _ = error }\nfunc sh14b() { append := func(xs []int, x int) []int { return xs }; var xs []int; xs = append(xs, 1); ys := append(xs, 2); _ = ys; len := func(interface{}) int { return -1 }; _ = len(xs) >= 0; _ = len(xs) < 0 }",
	// bare returns / named results / closures with defers
	"func nr15() (x int, err error) { defer func() { if r := recover(); r != nil { err = nil } }(); x = 1; return }\nfunc nr15b() (_ int, _ error) { return }\nfunc nr15c(xs []int) (r []int) { r = append(r, xs...); return }\nfunc nr15d() (f func() (int, error)) { f = func() (a int, b error) { return }; return }",
	// conversions, literals, odd expressions
	"type MyS16 string\ntype MyB16 []byte\ntype MyF16 float64\nfunc c16(s string, b []byte, ms MyS16, mb MyB16, f float64, mf MyF16, i int, u uint8, p *int, pp **int) { _ = string(b) == s; _ = []byte(s); _ = MyS16(b); _ = string(mb) == string(ms); _ = len(string(b)) == 0; _ = f+1 > mf2(mf); _ = 0o7 + 07 + 0x7 + 0b1 + 1_0; _ = i/1000 + i*1000; _ = u<<1 | u>>7; _ = *p + **pp; _ = &*p; _ = (*p); _ = -(-i); _ = !(!(i == 0)); _ = !(i != 0 && i != 1); _ = i >= 010 && i < 011 }\nfunc mf2(m MyF16) float64 { return float64(m) }",
	// select, channels, goroutines, defers in loops
	"func ch17(a, b chan int, done <-chan struct{}) { for { select { case v := <-a: _ = v; case b <- 1: case <-done: return; default: } }; }\nfunc d17(fs []func()) { for _, f := range fs { defer f(); defer func() { f() }(); go func() { f() }() }; for i := 0; i < 3; i++ { func() { defer println(i) }() } }",
	// same-named function-local types of very different sizes, ranged by value / as arrays / passed to closures
	"func lt21a(k int) int {\n\ttype rec struct{ a [200]int }\n\txs := make([]rec, 2)\n\tvar arr [4]rec\n\tn := 0\n\tfor _, x := range xs {\n\t\tn += x.a[0]\n\t}\n\tfor _, x := range arr {\n\t\tn += x.a[0]\n\t}\n\treturn n + k\n}\n\nfunc lt21b(k int) int {\n\ttype rec struct{ a [1]int }\n\txs := make([]rec, 2)\n\tvar arr [4]rec\n\tn := 0\n\tfor _, x := range xs {\n\t\tn += x.a[0]\n\t}\n\tfor _, x := range arr {\n\t\tn += x.a[0]\n\t}\n\treturn n + k\n}\n\ntype rec21 [1024]int\n\nfunc lt21c(p rec21) int {\n\ttype rec21 [2]int\n\tvar q rec21\n\tfor _, v := range [3]rec21{} {\n\t\tq = v\n\t}\n\treturn q[0] + p[0]\n}",
	// inside generic functions: local and anonymous struct types (and arrays of them) with fields of the
	// type-parameter type, ranged by value, passed by value, compared (types whose size go/types cannot compute)
	"func g22[T any](xs []T, x T) int {\n\ttype loc struct {\n\t\tf T\n\t\tn int\n\t}\n\tvar arr [4]loc\n\tvar anon [2]struct{ v T }\n\tn := 0\n\tfor _, v := range arr {\n\t\t_ = v\n\t\tn++\n\t}\n\tfor _, v := range anon {\n\t\t_ = v\n\t\tn++\n\t}\n\tfor _, v := range []loc{{f: x}} {\n\t\t_ = v\n\t}\n\tls := []struct{ a [8]T }{}\n\tfor _, v := range ls {\n\t\t_ = v\n\t}\n\tfor _, v := range xs {\n\t\t_ = v\n\t}\n\treturn n\n}\n\nfunc h22[T any](p struct{ a [16]T }, q [3]struct{ v T }) {}\n\nfunc cmp22[T any](a struct{ v T }, i int64, j int32) bool { return int32(i) < j }\n\nfunc use22() { _ = g22([]int{1}, 2); h22(struct{ a [16]int }{}, [3]struct{ v int }{}); _ = cmp22(struct{ v string }{}, 1, 2) }",
	// functions and methods named like tests, benchmarks and examples, with every kind of parameter list
	"type suite23 struct{}\n\nfunc Test23a() {\n\tfor _, x := range [2][300]int{} {\n\t\t_ = x\n\t}\n}\n\nfunc Test23b(p *error) {\n\tfor _, x := range [2][300]int{} {\n\t\t_ = x\n\t}\n}\n\nfunc Test23c(p *int, q *string) {}\n\nfunc Test23d(e error) {}\n\nfunc Test23e(t interface{ Helper() }) {}\n\nfunc Test23f(ps ...*any) {}\n\nfunc Test23g(p **int) (r int) { return }\n\nfunc Test23h(f func(*error)) {}\n\nfunc Test23i(p *struct{ a int }) {}\n\nfunc Test23j(p *[3]int, m map[string]*bool) {\n\tfor _, x := range *p {\n\t\t_ = x\n\t}\n}\n\nfunc Test23k[T any](p *T) {}\n\nfunc (s *suite23) TestMethod() {\n\tfor _, x := range [2][300]int{} {\n\t\t_ = x\n\t}\n}\n\nfunc (suite23) TestValue(p *error) {}\n\nfunc Benchmark23(p *uintptr) {}\n\nfunc Example23() {}\n\nfunc Fuzz23(p *byte) {}\n\nfunc Test() {}\n\nfunc Test_(_ *rune) {}",
	// boolean expressions nested below operands that are not operators (calls, index expressions, composite
	// literals, function literals, conversions) of an enclosing boolean expression
	"func acc24(b bool) bool { return b }\n\nfunc nb24(a, b int, xs []bool, m map[bool]int) bool {\n\tif !acc24(!(a == b)) {\n\t\treturn true\n\t}\n\tif len(xs) > 0 && acc24(!(a == a)) {\n\t\treturn false\n\t}\n\t_ = !xs[len(xs)-1] && xs[0] == !(a != b)\n\t_ = m[!(a < b)] > 0 || m[!(a >= b)] > 0\n\t_ = !(func() bool { return !(a == b) }())\n\t_ = !([]bool{!(a != b)}[0])\n\t_ = !bool(!(a <= b)) && !acc24(!!xs[0])\n\treturn !(!acc24(!(!(a > b))))\n}",
	// package-level variables initialised by function literals whose bodies hold the statement shapes
	// checkers keep per-function state for (chains, type-assertion chains, switches, ranges, defers), placed
	// before any function declaration
	"var v25a = func(x int, v interface{}) int {\n\tif x == 1 {\n\t\treturn 1\n\t} else if x == 2 {\n\t\treturn 2\n\t} else if x == 3 {\n\t\treturn 3\n\t} else {\n\t\treturn 4\n\t}\n}\n\nvar v25b = func(v interface{}) int {\n\tif _, ok := v.(int); ok {\n\t\treturn 1\n\t} else if _, ok := v.(string); ok {\n\t\treturn 2\n\t} else if _, ok := v.(error); ok {\n\t\treturn 3\n\t}\n\treturn 0\n}\n\nvar v25c, v25d = func(xs [][256]int) (n int) {\n\tfor _, x := range xs {\n\t\tn += x[0]\n\t}\n\tswitch {\n\tcase n == 1:\n\tcase n == 1:\n\t}\n\tdefer func() {}()\n\treturn\n}, []func(){func() {\n\tx := 0\n\tif x == 1 {\n\t} else if x == 2 {\n\t} else if x == 3 {\n\t}\n}}\n\nfunc f25() int { return v25a(1, nil) + v25b(nil) + v25c(nil) + len(v25d) }",
	// imports with aliases, dot and blank
	"",
	// struct tags, embedded fields, anonymous structs
	"type E18 struct{ int; *string; error; E18b; e18c struct{ x, y int } `json:\"c\"`; f func() `x:\"y\"` }\ntype E18b struct{ a, b int }\nvar a18 = struct{ x int; y struct{ z []int } }{}\nvar b18 = []struct{ k string; v int }{{\"a\", 1}, {k: \"b\"}}\nvar c18 = map[struct{ a int }]struct{}{{1}: {}, {a: 1}: {}}\nvar d18 = [...]int{0: 1, 2: 3, 1: 2}\nvar e18 = map[string]int{\"a\": 1, \"a\" + \"c\": 2, \"b\": 3}",
	// if-else chains, nested, with init
	"func ie19(x, y int, e error) int { if x == 1 { return 1 } else if x == 2 { return 2 } else if y == 3 { return 3 } else { if x == 4 { return 4 } }; if v := x; v == 1 { } else if w := y; w == 2 { } else { }; if e != nil { return 0 } else { return 1 } }\nfunc sw19(x int) { switch { case x == 1: fallthrough; case x == 2: ; default: }; switch x { case 1, 4: case 2: default: fallthrough; case 3: }; switch true { case x > 0: }; switch x := x; { case x > 1: } }",
	// unsafe / complex / arrays
	"func z20() { _ = *new(complex128); _ = *new(complex64); _ = *new([4]int); _ = *new(struct{ a int }); _ = *new(func()); _ = *new(chan int); _ = *new(map[int]int); _ = *new(*int); _ = *new(interface{}); _ = *new(error); _ = *new(uintptr); _ = *new(rune); _ = *new(byte); _ = *new([]string); _ = *new(bool); _ = *new(string); _ = *new(float32); _ = *(new(int)); _ = *new((int)) }",
}

// OddImports are programs with unusual import forms (kept whole: imports must lead the file).
var oddWhole = []string{
	"package vpkg\nimport ()\n",
	"package vpkg\n",
	"package vpkg\nimport (\n\t\"fmt\"\n\tf \"fmt\"\n\t. \"strings\"\n\t_ \"os\"\n\tstrings2 \"strings\"\n)\nimport \"os\"\nfunc u() { fmt.Println(); f.Println(); _ = ToLower(\"\"); _ = strings2.ToUpper(\"\") }\n",
	"package vpkg\nimport fmt \"os\"\nimport os \"fmt\"\nfunc u() { fmt.Exit(1); os.Println() }\n",
	"package vpkg\nimport (\n\t\"unsafe\"\n\t\"sort\"\n\t\"regexp\"\n\t\"path/filepath\"\n\t\"flag\"\n\t\"sync\"\n)\nvar up unsafe.Pointer\nfunc u() { _ = *new(unsafe.Pointer); _ = unsafe.Sizeof(up); xs := []int{}; sort.Slice(xs, func(i, j int) (less bool) { less = xs[i] < xs[j]; return }); sort.Slice(xs[:], func(i, j int) bool { if xs[i] < xs[j] { return true }; return false }); sort.Slice(xs, func(i, j int) bool { panic(0) }); sort.SliceStable(xs, nil); sort.Slice(xs, func(i, j int) (less bool) { return }); sort.SliceStable(xs, func(i, j int) (_ bool) { return }); _ = regexp.MustCompile(`a` + `b`); const pat = \"a|b|c\"; _ = regexp.MustCompile(pat); var rs = \"x\"; _, _ = regexp.Compile(rs); _ = filepath.Join(); _ = filepath.Join(\"a/b\"); var ss []string; _ = filepath.Join(ss...); _ = flag.Bool(\" a\", false, \"\"); var b bool; flag.BoolVar(&b, \"b \", false, \"\"); var mu sync.Mutex; mu.Lock(); mu.Unlock(); var rw sync.RWMutex; rw.RLock(); defer rw.Unlock() }\n",
	"package vpkg\nimport \"flag\"\nfunc four() (*bool, string, bool, string) { return nil, \"\", false, \"\" }\nfunc three() (string, bool, string) { return \"\", false, \"\" }\nfunc u() { flag.BoolVar(four()); _ = flag.Bool(three()); fs := flag.NewFlagSet(\"\", 0); _ = fs.Bool(three()); fs.BoolVar(four()) }\n",
	"package vpkg\nimport (\"regexp\"; \"sort\"; \"path/filepath\"; \"strings\"; \"bytes\"; \"fmt\")\nfunc s1() (string) { return \"\" }\nfunc s2() (string, string) { return \"\", \"\" }\nfunc sl() ([]int, func(i, j int) bool) { return nil, nil }\nfunc sn() (string, int) { return \"\", 1 }\nfunc s3() (string, string, int) { return \"\", \"\", 1 }\nfunc bb() ([]byte, []byte) { return nil, nil }\nfunc u() { _ = regexp.MustCompile(s1()); sort.Slice(sl()); _ = filepath.Join(s2()); _ = strings.Index(s2()); _ = strings.Compare(s2()) == 0; _ = strings.Repeat(sn()); _ = strings.SplitN(s3()); _ = bytes.Compare(bb()) == 0; _ = bytes.Equal(bb()); _ = fmt.Sprintf(s2()); _ = strings.HasPrefix(s2()); _ = strings.Contains(s2()); _ = strings.EqualFold(s2()); _ = strings.ToLower(s1()) == strings.ToLower(s1()) }\n",
	"package vpkg\nimport (\"net/http\"; \"time\"; \"io\"; \"os\"; \"database/sql\"; \"context\")\nfunc h(w http.ResponseWriter, r *http.Request) { http.Error(w, \"x\", 500) }\nfunc h2(w http.ResponseWriter, r *http.Request) { if r == nil { http.Error(w, \"x\", 500) }; w.Write(nil) }\nfunc t(a, b time.Time, d time.Duration) { _ = a.Sub(b); _ = time.Now().Sub(a); _ = a.Unix()/1000; _ = time.Duration(1) * time.Second; _ = d * time.Second; _ = a.Before(b) || a.Equal(b) }\nfunc i(w io.Writer, f *os.File, db *sql.DB, ctx context.Context) { io.WriteString(w, \"a\"); w.Write([]byte(\"a\")); f.Write([]byte(\"s\")); _, _ = http.NewRequest(\"GET\", \"\", nil); db.Exec(\"select\"); _, _ = db.Query(\"x\"); _, _ = db.QueryContext(ctx, \"x\"); defer f.Close(); os.Exit(1) }\n",
}

// file headers with Go-version build constraints (language version per file) over version-sensitive code
func buildConstraintFiles() []string {
	body := "package vpkg\n\nimport (\n\t\"os\"\n\t\"strings\"\n\t\"sync\"\n\t\"time\"\n)\n\nfunc vers(t time.Time, s string, m *sync.Map) {\n\t_ = os.FileMode(0644)\n\t_ = 0o17 + 017\n\t_ = t.Unix() / 1000\n\t_ = t.UnixNano() / 1000000\n\t_ = strings.Index(s, \"a\") != -1\n\tif v, ok := m.Load(1); ok {\n\t\tm.Delete(1)\n\t\t_ = v\n\t}\n\t_ = strings.Split(s, \"x\")[0]\n}\n"
	var out []string
	for _, v := range []string{"go1.12", "go1.13", "go1.16", "go1.17", "go1.18", "go1.20", "go1.21", "go1.22"} {
		out = append(out, "//go:build "+v+"\n\n"+body)
		out = append(out, "//go:build "+v+" && linux\n// +build "+v+",linux\n\n"+body)
	}
	out = append(out, "//go:build !go1.99\n\n"+body, "//go:build ignore || go1.16\n\n"+body, "// Code generated by x. DO NOT EDIT.\n\n//go:build go1.16\n\n"+body)
	return out
}

// Odd emits the odd-syntax family: every snippet alone, every ordered pair of snippets, and the
// whole-file list.
func Odd(emit func(Prog)) {
	var sn []string
	for _, s := range oddSnippets {
		if s != "" {
			sn = append(sn, s)
		}
	}
	for i, s := range sn {
		emit(one(fmt.Sprintf("odd|%d", i), "odd", "package vpkg\n\n"+s+"\n", nil))
	}
	for i, a := range sn {
		for j, b := range sn {
			if i != j {
				emit(one(fmt.Sprintf("odd|%d+%d", i, j), "odd", "package vpkg\n\n"+a+"\n\n"+b+"\n", nil))
			}
		}
	}
	for i, w := range buildConstraintFiles() {
		emit(one(fmt.Sprintf("oddbuild|%d", i), "odd", w, nil))
	}
	for i, w := range oddWhole {
		emit(one(fmt.Sprintf("oddw|%d", i), "odd", w, nil))
	}
	// two-file packages in both file orders: one file whose diagnostics carry machine fixes, one whose
	// diagnostics from the same checkers carry none (a long-lived instance keeps a warning buffer across files)
	for i, pr := range [][2]string{{oddFixable, oddReportOnly}, {oddReportOnly, oddFixable}} {
		emit(Prog{ID: fmt.Sprintf("oddmulti|%d", i), Fam: "odd", Path: "vpkg", Files: []harness.File{{Name: "a.go", Src: pr[0]}, {Name: "b.go", Src: pr[1]}}})
	}
	// all snippets in one file
	emit(one("odd|all", "odd", "package vpkg\n\n"+strings.Join(sn, "\n\n")+"\n", nil))
}

const oddFixable = "package vpkg\n\nimport (\n\t\"fmt\"\n\t\"net/http\"\n\t\"os\"\n\t\"strings\"\n)\n\nfunc fixable(s string, w *os.File) (bool, bool, error) {\n\tfmt.Fprint(w, fmt.Sprintf(\"%d\", 1))\n\t_, err := http.NewRequest(\"GET\", s, nil)\n\tw.Write([]byte(s))\n\treturn strings.Index(s, \".\") >= 0, strings.ToLower(s) == strings.ToLower(\"x\"), err\n}\n"

const oddReportOnly = "package vpkg\n\nimport (\n\t\"bytes\"\n\t\"strings\"\n)\n\nfunc reportOnly(s string, b []byte) (string, []byte, []string, bool) {\n\tif len(s) >= 0 {\n\t\ts = s + s[:]\n\t}\n\treturn strings.Replace(s, \".\", \"\", -1), bytes.Replace(b, b, b, -1), strings.SplitN(s, \".\", -1), strings.Compare(s, \"x\") == 0\n}\n"

package progenum

import (
	"fmt"
	"strings"

	"verif/mc/internal/harness"
)

// Empties enumerates nestings of empty constructs: every outer statement form x every inner (empty or
// degenerate) statement form, as the only statement of the outer body, as its first and as its last statement,
// plus declarations with nothing in them. Depth 2, complete product; each program is one small function.
func Empties(emit func(Prog)) {
	outers := []struct{ name, open, close string }{
		{"func", "", ""},
		{"for", "for i := 0; i < len(xs); i++ {", "}"},
		{"forever", "for {", "break\n}"},
		{"range", "for _, x := range xs {\n_ = x", "}"},
		{"rangeNoVar", "for range xs {", "}"},
		{"rangeKV", "for k, x := range m {\n_, _ = k, x", "}"},
		{"if", "if len(xs) > 0 {", "}"},
		{"else", "if len(xs) > 0 {\n} else {", "}"},
		{"elseif", "if len(xs) > 0 {\n} else if b {", "}"},
		{"switch", "switch {\ncase b:", "}"},
		{"switchDefault", "switch n {\ndefault:", "}"},
		{"typeSwitch", "switch v.(type) {\ncase int:", "}"},
		{"select", "select {\ncase <-ch:", "}"},
		{"selectDefault", "select {\ndefault:", "}"},
		{"block", "{", "}"},
		{"funcLit", "func() {", "}()"},
		{"goLit", "go func() {", "}()"},
		{"deferLit", "defer func() {", "}()"},
		{"label", "L:\nfor {", "break L\n}"},
	}
	inners := []struct{ name, text string }{
		{"nothing", ""},
		{"emptyStmt", ";"},
		{"emptyIf", "if n > 0 {\n}"},
		{"emptyIfElse", "if n > 0 {\n} else {\n}"},
		{"emptyIfElseIf", "if n > 0 {\n} else if n < 0 {\n}"},
		{"ifInitEmpty", "if y := n; y > 0 {\n}"},
		{"emptyFor", "for n < 0 {\n}"},
		{"emptyFor3", "for i := 0; i < n; i++ {\n}"},
		{"emptyRange", "for range xs {\n}"},
		{"emptyRangeX", "for _, x := range xs {\n_ = x\n}"},
		{"emptySwitch", "switch {\n}"},
		{"emptySwitchTag", "switch n {\n}"},
		{"emptyCase", "switch n {\ncase 1:\ncase 2:\ndefault:\n}"},
		{"emptyTypeSwitch", "switch v.(type) {\n}"},
		{"emptyTypeCase", "switch y := v.(type) {\ncase int:\ncase nil:\n_ = y\n}"},
		{"emptySelectCase", "select {\ncase <-ch:\ndefault:\n}"},
		{"emptyBlock", "{\n}"},
		{"emptyLit", "func() {}()"},
		{"emptyDefer", "defer func() {}()"},
		{"emptyGo", "go func() {}()"},
		{"ifContinue", "for n > 0 {\nif b {\ncontinue\n}\n}"},
		{"ifReturn", "if b {\nreturn\n}"},
		{"emptyDecls", "var ()\nconst ()\ntype ()"},
		{"emptyTypes", "type e struct{}\ntype i interface{}\nvar _ = e{}\nvar _ i = struct{}{}\nvar _ = [0]int{}\nvar _ = map[string]int{}\nvar _ = []int{}"},
		{"emptyCalls", "_ = append(xs)\n_ = len(\"\")\nprintln()\n_ = make([]int, 0)\n_ = new(struct{})"},
		{"emptyStrings", "_ = \"\" + \"\"\n_ = ``\n_ = s == \"\"\n_ = len(s) == 0"},
	}
	const head = "package vpkg\n\nfunc f(xs []int, m map[string]int, n int, b bool, v interface{}, ch chan int, s string) {\n"
	mk := func(id string, body string) {
		src := head + body + "\n}\n"
		emit(Prog{ID: "empty|" + id, Fam: "empty", Path: "vpkg", Files: []harness.File{{Name: "f.go", Src: src}}})
	}
	for _, o := range outers {
		for _, in := range inners {
			for _, place := range []string{"only", "first", "last"} {
				var body []string
				if o.open != "" {
					body = append(body, o.open)
				}
				switch place {
				case "only":
					body = append(body, in.text)
				case "first":
					body = append(body, in.text, "n++")
				case "last":
					body = append(body, "n++", in.text)
				}
				if o.close != "" {
					body = append(body, o.close)
				}
				mk(fmt.Sprintf("%s|%s|%s", o.name, in.name, place), strings.Join(body, "\n"))
			}
		}
	}
	// declarations with nothing in them
	for i, src := range []string{
		"package vpkg\n",
		"package vpkg\n\nimport ()\n",
		"package vpkg\n\nvar ()\n\nconst ()\n\ntype ()\n",
		"package vpkg\n\nfunc f()\n",
		"package vpkg\n\nfunc f() {}\n\nfunc (T) m() {}\n\ntype T struct{}\n\ntype I interface{}\n\ntype G[P any] struct{}\n\nfunc (G[P]) m() {}\n\nfunc (*G[_]) n() {}\n",
		"package vpkg\n\nfunc _() {}\n\nfunc _(_ int, _ ...string) (_ error) { return }\n\nvar _ = func() {}\n\ntype _ struct{ _ int }\n",
		"package vpkg\n\nfunc init() {}\n\nfunc init() {}\n\nfunc main() {}\n",
	} {
		emit(Prog{ID: fmt.Sprintf("empty|decl%d", i), Fam: "empty", Path: "vpkg", Files: []harness.File{{Name: "f.go", Src: src}}})
	}
}

package progenum

import (
	"fmt"
	"strings"

	"verif/mc/internal/harness"
)

// EmbedGraphs enumerates packages whose struct types embed each other in every possible way: n types T0..Tn-1,
// each with an ordered list of embedded pointer fields drawn from the other types, *DB (Query and Exec) and *RO
// (Query only), at most maxFields fields per type (complete product). File 0 declares the types; one further
// file per type ignores the rows of x.Query on a value of that type. Cyclic graphs are the point: a checker
// that walks embedded fields needs a recursion guard, and its verdict for one type must not depend on which
// other type it met first. Use files whose call does not type-check (no or ambiguous Query) are left out by the
// caller (see UseFiles).
func EmbedGraphs(n, maxFields int, emit func(Prog)) {
	items := func(self int) []string {
		var it []string
		for j := 0; j < n; j++ {
			if j != self {
				it = append(it, fmt.Sprintf("T%d", j))
			}
		}
		return append(it, "DB", "RO")
	}
	// all ordered selections without repetition of at most maxFields items
	var sel func(it []string, k int) [][]string
	sel = func(it []string, k int) [][]string {
		out := [][]string{{}}
		if k == 0 {
			return out
		}
		for i, x := range it {
			rest := append(append([]string{}, it[:i]...), it[i+1:]...)
			for _, tail := range sel(rest, k-1) {
				out = append(out, append([]string{x}, tail...))
			}
		}
		return out
	}
	choices := make([][][]string, n)
	for i := 0; i < n; i++ {
		// dedupe (sel emits every prefix several times)
		seen := map[string]bool{}
		for _, c := range sel(items(i), maxFields) {
			k := strings.Join(c, ",")
			if !seen[k] {
				seen[k] = true
				choices[i] = append(choices[i], c)
			}
		}
	}
	idx := make([]int, n)
	for {
		var b strings.Builder
		b.WriteString("package eg\n\ntype Rows struct{}\n\ntype Result struct{}\n\ntype DB struct{}\n\nfunc (*DB) Query(q string, args ...interface{}) (*Rows, error) { return nil, nil }\n\nfunc (*DB) Exec(q string, args ...interface{}) (Result, error) { return Result{}, nil }\n\ntype RO struct{}\n\nfunc (*RO) Query(q string, args ...interface{}) (*Rows, error) { return nil, nil }\n\n")
		var id []string
		for i := 0; i < n; i++ {
			fields := choices[i][idx[i]]
			id = append(id, fmt.Sprintf("T%d{%s}", i, strings.Join(fields, " ")))
			b.WriteString(fmt.Sprintf("type T%d struct {\n", i))
			for _, f := range fields {
				b.WriteString("\t*" + f + "\n")
			}
			b.WriteString("}\n\n")
		}
		files := []harness.File{{Name: "types.go", Src: b.String()}}
		for i := 0; i < n; i++ {
			files = append(files, harness.File{Name: fmt.Sprintf("use%d.go", i), Src: fmt.Sprintf("package eg\n\nfunc use%d(x *T%d) error {\n\t_, err := x.Query(\"select 1\")\n\treturn err\n}\n", i, i)})
		}
		emit(Prog{ID: "embed|" + strings.Join(id, " "), Fam: "embed", Path: "eg", Files: files})
		// next index vector
		k := 0
		for k < n {
			idx[k]++
			if idx[k] < len(choices[k]) {
				break
			}
			idx[k] = 0
			k++
		}
		if k == n {
			return
		}
	}
}

// ValidUseFiles keeps file 0 and those further files that type-check together with file 0.
func ValidUseFiles(p Prog) Prog {
	out := p
	out.Files = []harness.File{p.Files[0]}
	for _, f := range p.Files[1:] {
		if harness.Precheck(p.Path, []harness.File{p.Files[0], f}) {
			out.Files = append(out.Files, f)
		}
	}
	return out
}

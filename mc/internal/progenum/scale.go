package progenum

import (
	"fmt"
	"strings"
)

// ScaleFunc is one self-contained top-level chunk (unique identifiers) of a construct kind at size K.
type ScaleFunc struct {
	ID  string
	Src string
}

// ScaleFuncs enumerates construct kinds x sizes K: the same construct small and large (switches, map
// literals, if-else chains, same-named local types of different sizes, append runs, boolean chains ...).
func ScaleFuncs() []ScaleFunc {
	ks := []int{1, 2, 3, 5, 15, 16, 17, 33}
	var out []ScaleFunc
	rep := func(k int, f func(i int) string) string {
		var b strings.Builder
		for i := 0; i < k; i++ {
			b.WriteString(f(i))
		}
		return b.String()
	}
	for _, k := range ks {
		n := fmt.Sprint(k)
		add := func(kind, src string) { out = append(out, ScaleFunc{ID: kind + n, Src: src}) }
		add("switchInt", "func swI"+n+"(x int) int {\n\tswitch x {\n"+rep(k, func(i int) string { return fmt.Sprintf("\tcase %d:\n\t\treturn %d\n", i, i) })+"\t}\n\treturn -1\n}")
		add("switchCond", "func swC"+n+"(x int) int {\n\tswitch {\n"+rep(k, func(i int) string { return fmt.Sprintf("\tcase x == %d:\n\t\treturn %d\n", i, i) })+"\tcase x == 0:\n\t\treturn 100\n\t}\n\treturn -1\n}")
		add("typeSwitch", "func swT"+n+"(v interface{}) int {\n\tswitch v.(type) {\n"+rep(k, func(i int) string { return fmt.Sprintf("\tcase [%d]int:\n\t\treturn %d\n", i, i) })+"\t}\n\treturn -1\n}")
		add("mapLit", "var mapL"+n+" = map[int]string{\n"+rep(k, func(i int) string { return fmt.Sprintf("\t%d: \"v\",\n", i) })+"}")
		add("mapLitStr", "var mapS"+n+" = map[string]int{\n"+rep(k, func(i int) string { return fmt.Sprintf("\t\"k%d\": %d,\n", i, i) })+"\t\"k0 \": 0,\n}")
		add("chain", "func chain"+n+"(x int) int {\n\tif x == -1 {\n\t\treturn -1\n\t}"+rep(k, func(i int) string { return fmt.Sprintf(" else if x == %d {\n\t\treturn %d\n\t}", i, i) })+"\n\treturn 0\n}")
		add("chainElse", "func chainE"+n+"(x int) int {\n\tif x == -1 {\n\t\treturn -1\n\t}"+rep(k, func(i int) string { return fmt.Sprintf(" else if x == %d {\n\t\treturn %d\n\t}", i, i) })+" else {\n\t\treturn 0\n\t}\n}")
		add("chainInit", "func chainI"+n+"(x int) int {\n\tif x == -1 {\n\t\treturn -1\n\t}"+rep(k, func(i int) string { return fmt.Sprintf(" else if x == %d {\n\t\treturn %d\n\t}", i, i) })+" else if y := x; y == 99 {\n\t\treturn 99\n\t} else if x == 100 {\n\t\treturn 100\n\t} else if x == 101 {\n\t\treturn 101\n\t}\n\treturn 0\n}")
		add("localType", fmt.Sprintf("func localT%d() int {\n\ttype item struct{ a [%d]byte }\n\tvar xs []item\n\tn := 0\n\tfor _, x := range xs {\n\t\tn += int(x.a[0])\n\t}\n\tvar arr [4]item\n\tfor _, x := range arr {\n\t\tn += int(x.a[0])\n\t}\n\treturn n\n}", k, k*40))
		add("nest", "func nest"+n+"(xs []int) {\n\tfor _, x := range xs {\n\t\tif x > 0 {\n"+rep(k, func(i int) string { return "\t\t\tprintln(x)\n" })+"\t\t}\n\t}\n}")
		add("appends", "func apps"+n+"(xs []int) []int {\n"+rep(k, func(i int) string { return fmt.Sprintf("\txs = append(xs, %d)\n", i) })+"\treturn xs\n}")
		add("orChain", "func ors"+n+"(a int) bool {\n\treturn a == -1"+rep(k, func(i int) string { return fmt.Sprintf(" || a == %d", i) })+" || a == 0\n}")
		add("assertChain", "func asrt"+n+"(v interface{}) int {\n\tif _, ok := v.(string); ok {\n\t\treturn -1\n\t}"+rep(k, func(i int) string {
			return fmt.Sprintf(" else if _, ok := v.([%d]int); ok {\n\t\treturn %d\n\t}", i, i)
		})+"\n\treturn 0\n}")
		add("results", "func res"+n+"() ("+strings.TrimSuffix(rep(k, func(i int) string { return "int, " }), ", ")+") {\n\tpanic(0)\n}")
		add("params", "func prm"+n+"("+strings.TrimSuffix(rep(k, func(i int) string { return fmt.Sprintf("a%d [16]byte, ", i) }), ", ")+") {}")
		// entries that are *names* (function-local constants spelled alike in every size of the construct)
		consts := "\tconst (\n" + rep(k, func(i int) string { return fmt.Sprintf("\t\tc%d = %d\n", i, i) }) + "\t)\n"
		add("switchIdent", "func swN"+n+"(x int) int {\n"+consts+"\tswitch x {\n"+rep(k, func(i int) string { return fmt.Sprintf("\tcase c%d:\n\t\treturn %d\n", i, i) })+"\t}\n\treturn -1\n}")
		add("mapLitIdent", "func mapN"+n+"() map[int]string {\n"+consts+"\treturn map[int]string{\n"+rep(k, func(i int) string { return fmt.Sprintf("\t\tc%d: \"v\",\n", i) })+"\t}\n}")
		add("switchCondIdent", "func swB"+n+"(x int) int {\n"+consts+"\tswitch {\n"+rep(k, func(i int) string { return fmt.Sprintf("\tcase x == c%d:\n\t\treturn %d\n", i, i) })+"\t}\n\treturn -1\n}")
		add("dupArgs", "func dupA"+n+"(s string) bool {\n\treturn "+strings.TrimSuffix(rep(k, func(i int) string { return "(s == s) || " }), " || ")+"\n}")
	}
	return out
}

// Package progenum enumerates finite families of Go programs (no sampling: every family is a
// full Cartesian product or an explicit list; callers filter through go/types).
package progenum

import (
	"fmt"
	"strings"
	"sync"

	"verif/mc/internal/harness"
)

// Prog is one generated package.
type Prog struct {
	ID    string // stable identity: family + hole assignment
	Fam   string
	Path  string
	Files []harness.File
	Meta  map[string]string
}

func one(id, fam, src string, meta map[string]string) Prog {
	return Prog{ID: id, Fam: fam, Path: "vpkg", Files: []harness.File{{Name: "f.go", Src: src}}, Meta: meta}
}

// ---------------------------------------------------------------------------------------------
// shadow / arity families

// Sig is a candidate signature of a namesake together with argument texts that fit it.
type Sig struct {
	ID      string
	TParams string
	Params  string
	Results string
	Args    []string
}

var Sigs = []Sig{
	{"s0", "", "", "", []string{""}},
	{"s0i", "", "", "int", []string{""}},
	{"s0p", "", "", "*int", []string{""}},
	{"s0sl", "", "", "[]int", []string{""}},
	{"s0s", "", "", "string", []string{""}},
	{"s0e", "", "", "error", []string{""}},
	{"s0ii", "", "", "(int, int)", []string{""}},
	{"s0re", "", "", "(*int, error)", []string{""}},
	{"s1i", "", "x int", "int", []string{"1", "gi()", "n"}},
	{"s1s", "", "x string", "string", []string{`"a"`, "s", `"[a-z]+"`, `"a|b|c"`, "gstr()"}},
	{"s1s_re", "", "x string", "(*int, error)", []string{`"a"`, `"^a|b$"`, "gstr()"}},
	{"s1s_p", "", "x string", "*int", []string{`"a"`, `"(?i)x"`, "s"}},
	{"s1sl", "", "x []int", "[]int", []string{"xs", "xs[:]", "gs()", "m[0]"}},
	{"s1sl_i", "", "x []int", "int", []string{"xs", "xs[:]", "gs()", "nil"}},
	{"s1e", "", "x interface{}", "*int", []string{"xs", "1", "nil", "int"}},
	{"s1any", "", "x ...interface{}", "", []string{"", "1", `"a", 1`, "gi2()", "ifs...", "err"}},
	{"s1code", "", "code int", "", []string{"1", "gi()"}},
	{"sv", "", "xs []int, ys ...int", "[]int", []string{"xs", "xs, 1", "xs, xs...", "ys, xs...", "xs[:1], 2", "m[0], 1", "gs()", "gs2()", "xs[:0], ys[1:]...", "(xs), 1"}},
	{"s2i", "", "a, b int", "int", []string{"1, 2", "gi2()", "n, n"}},
	{"s2sl", "", "dst, src []int", "int", []string{"xs, ys", "xs, xs", "gss()"}},
	{"sjoin", "", "elem ...string", "string", []string{"", `"a"`, `"a", "b/c"`, `s, "/x"`, "strs...", "gstr2()"}},
	{"sfmt", "", "format string, a ...interface{}", "string", []string{`"x"`, `"%d", 1`, `s`, `s, xs`, `gsa()`, `"%s", s`}},
	{"sp", "", "p *int", "*int", []string{"p", "nil"}},
	{"ssort", "", "x interface{}, less func(i, j int) bool", "", []string{
		"xs, func(i, j int) bool { return xs[i] < xs[j] }",
		"xs, func(i, j int) (r bool) { r = xs[i] < xs[j]; return }",
		"xs, func(i, j int) bool { return ys[i] < ys[j] }",
		"xs, func(i, j int) bool { return xs[j] < xs[i] }",
		"xs, less",
		"gsort()",
		"xs, func(i int, j int) bool { return (xs[i]) < xs[j] }",
		"xs, func(_, _ int) bool { return true }",
		"xs, func(i, j int) (r bool) { return }",
	}},
	{"sflag", "", "name string, value bool, usage string", "*bool", []string{`"a b", true, "u"`, `" x", false, s`, "gflag()", `s, true, s`}},
	{"sflagvar", "", "p *bool, name string, value bool, usage string", "", []string{`bp, "a b", true, "u"`, "gflagvar()", `bp, s, true, s`}},
	{"sg", "[T any]", "x T", "T", []string{"1", "xs", `"a"`, "p"}},
	{"sgv", "[T any]", "xs []T, ys ...T", "[]T", []string{"xs", "xs, 1", "xs, xs...", "ys, xs..."}},
}

// Contexts use %s for the call expression. They are placed inside a function body that has the
// prelude variables in scope.
var Contexts = []string{
	"%s",
	"_ = %s",
	"v := %s; _ = v",
	"xs = %s",
	"ys = %s",
	"m[0] = %s",
	"xs[0] = %s",
	"_ = *%s",
	"v := *%s; _ = v",
	"_, _ = %s",
	"v, err := %s; _, _ = v, err",
	"defer %s",
	"go %s",
	"if v := %s; v != nil { }",
	"if %s == nil { }",
	"if %s > 0 && %s < 0 { }",
	"_ = func() []int { return %s }",
	"_ = func() int { return %s }",
	"_ = func() *int { return %s }",
	"_ = func() (r []int) { r = %s; return }",
	"for range %s { }",
	"switch %s { }",
	"_ = [](int){%s}",
	"n += %s",
	"_ = %s >= 0",
	"_ = s[%s:]",
	"_ = s == %s",
}

const prelude = `
var (
	xs, ys []int
	m      map[int][]int
	strs   []string
	ifs    []interface{}
	s      string
	n      int
	p      *int
	bp     *bool
	err    error
	less   func(i, j int) bool
)

func gi() int                 { return 1 }
func gi2() (int, int)         { return 1, 2 }
func gs() []int               { return nil }
func gs2() ([]int, int)       { return nil, 1 }
func gss() ([]int, []int)     { return nil, nil }
func gstr() string            { return "" }
func gstr2() (string, string) { return "", "" }
func gsa() (string, []int)    { return "", nil }
func gsort() ([]int, func(i, j int) bool)  { return nil, nil }
func gflag() (string, bool, string)        { return "", false, "" }
func gflagvar() (*bool, string, bool, string) { return nil, "", false, "" }
`

// Builtins are unqualified subject names; Qualified are pkg.F subjects with their import path.
var Builtins = []string{"append", "new", "len", "cap", "copy", "make", "panic", "print", "println", "recover", "delete", "close", "min", "max", "nil", "true", "int", "string", "error", "bool"}

type QName struct {
	Pkg, Path, Fn string
	// ImportAs is the name under which the real package is imported in the "+import" declaration kinds
	// (default: Pkg). The metamorphic twin renames only the shadowing declaration, not the import.
	ImportAs string
}

var Qualified = []QName{
	{"regexp", "regexp", "Compile", ""}, {"regexp", "regexp", "MustCompile", ""}, {"regexp", "regexp", "CompilePOSIX", ""}, {"regexp", "regexp", "MustCompilePosix", ""},
	{"sort", "sort", "Slice", ""}, {"sort", "sort", "SliceStable", ""},
	{"filepath", "path/filepath", "Join", ""},
	{"log", "log", "Fatal", ""}, {"log", "log", "Fatalf", ""}, {"log", "log", "Fatalln", ""}, {"os", "os", "Exit", ""},
	{"flag", "flag", "Bool", ""}, {"flag", "flag", "BoolVar", ""}, {"flag", "flag", "String", ""},
	{"strings", "strings", "Index", ""}, {"strings", "strings", "Compare", ""}, {"strings", "strings", "ToLower", ""}, {"strings", "strings", "Replace", ""}, {"strings", "strings", "SplitN", ""},
	{"bytes", "bytes", "Index", ""}, {"bytes", "bytes", "Compare", ""},
	{"fmt", "fmt", "Sprint", ""}, {"fmt", "fmt", "Sprintf", ""}, {"fmt", "fmt", "Errorf", ""}, {"fmt", "fmt", "Fprintf", ""},
	{"http", "net/http", "Error", ""}, {"http", "net/http", "NewRequest", ""},
	{"time", "time", "Now", ""}, {"time", "time", "Since", ""},
	{"utf8", "unicode/utf8", "DecodeRuneInString", ""},
	{"errors", "errors", "New", ""},
	{"sync", "sync", "OnceFunc", ""},
	{"io", "io", "WriteString", ""},
	{"atomic", "sync/atomic", "AddInt32", ""},
}

// DeclKinds for unqualified names.
var BuiltinDecls = []string{"pkgfunc", "pkgvar", "local", "param", "method", "local+realcall", "param+realcall"}

// RealName maps a neutral twin name back to the builtin it stands for (set by the C20 check before it renders
// a twin of a "+realcall" program, whose earlier function keeps calling the real builtin).
var RealName sync.Map

// DeclKinds for qualified names.
var QualDecls = []string{"varstructfield", "varmethod", "localvar", "param", "fakepkg", "param+import", "localvar+import", "param+import+realcall", "localvar+import+realcall"}

func body(sig Sig) string {
	if sig.Results == "" {
		return "{ }"
	}
	return "{ panic(0) }"
}

// ShadowBuiltin renders one program in which name is re-declared (decl kind) with signature sig
// and called with args in context ctx.
func ShadowBuiltin(name, decl string, sig Sig, args, ctx string) Prog {
	call := name + "(" + args + ")"
	ftype := "func(" + sig.Params + ") " + sig.Results
	var top, pre, params string
	switch decl {
	case "pkgfunc":
		top = fmt.Sprintf("func %s%s(%s) %s %s\n", name, sig.TParams, sig.Params, sig.Results, body(sig))
	case "pkgvar":
		if sig.TParams != "" {
			return Prog{}
		}
		top = fmt.Sprintf("var %s %s\n", name, ftype)
	case "local":
		if sig.TParams != "" {
			return Prog{}
		}
		pre = fmt.Sprintf("%s := %s %s\n\t", name, ftype, body(sig))
	case "param":
		if sig.TParams != "" {
			return Prog{}
		}
		params = name + " " + ftype
	case "local+realcall", "param+realcall":
		// the real builtin is called with the same arguments in an earlier function of the file; the user
		// declaration shadows it only inside subject()
		if sig.TParams != "" {
			return Prog{}
		}
		real := name
		if r, ok := RealName.Load(name); ok {
			real = r.(string)
		}
		top = "func realUse() {\n\t" + strings.ReplaceAll(ctx, "%s", real+"("+args+")") + "\n}\n"
		if decl == "local+realcall" {
			pre = fmt.Sprintf("%s := %s %s\n\t", name, ftype, body(sig))
		} else {
			params = name + " " + ftype
		}
	case "method":
		if sig.TParams != "" {
			return Prog{}
		}
		top = fmt.Sprintf("type vrecv struct{}\nfunc (vrecv) %s(%s) %s %s\nvar vr vrecv\n", name, sig.Params, sig.Results, body(sig))
		call = "vr." + call
	}
	stmt := strings.ReplaceAll(ctx, "%s", call)
	src := "package vpkg\n" + prelude + top + "\nfunc subject(" + params + ") {\n\t" + pre + stmt + "\n}\n"
	id := fmt.Sprintf("shadowB|%s|%s|%s|%s|%s", name, decl, sig.ID, args, ctx)
	return one(id, "shadowB", src, map[string]string{"subject": name, "decl": decl, "sig": sig.ID, "args": args, "ctx": ctx, "real": "0"})
}

// RealBuiltin renders the control: the real builtin in the same context.
func RealBuiltin(name, args, ctx string) Prog {
	call := name + "(" + args + ")"
	stmt := strings.ReplaceAll(ctx, "%s", call)
	src := "package vpkg\n" + prelude + "\nfunc subject() {\n\t" + stmt + "\n}\n"
	id := fmt.Sprintf("realB|%s|%s|%s", name, args, ctx)
	return one(id, "realB", src, map[string]string{"subject": name, "decl": "real", "args": args, "ctx": ctx, "real": "1"})
}

// ShadowQualified renders pkg.Fn(args) where pkg is a user declaration.
func ShadowQualified(q QName, decl string, sig Sig, args, ctx string) Prog {
	if sig.TParams != "" && decl != "fakepkg" {
		return Prog{}
	}
	call := q.Pkg + "." + q.Fn + "(" + args + ")"
	ftype := "func(" + sig.Params + ") " + sig.Results
	var top, pre, params, imp string
	switch decl {
	case "varstructfield":
		top = fmt.Sprintf("var %s struct{ %s %s }\n", q.Pkg, q.Fn, ftype)
	case "varmethod":
		top = fmt.Sprintf("type vrecv struct{}\nfunc (vrecv) %s(%s) %s %s\nvar %s vrecv\n", q.Fn, sig.Params, sig.Results, body(sig), q.Pkg)
	case "localvar":
		top = fmt.Sprintf("type vrecv struct{}\nfunc (vrecv) %s(%s) %s %s\n", q.Fn, sig.Params, sig.Results, body(sig))
		pre = fmt.Sprintf("var %s vrecv\n\t", q.Pkg)
	case "param":
		top = fmt.Sprintf("type vrecv struct{ %s %s }\n", q.Fn, ftype)
		params = q.Pkg + " *vrecv"
	case "fakepkg":
		imp = fmt.Sprintf("import %s \"%s\"\n", q.Pkg, FakePath(q, sig))
	case "param+import":
		// the file really imports the package; a parameter of the same name shadows it inside subject()
		as := q.ImportAs
		if as == "" {
			as = q.Pkg
		}
		imp = fmt.Sprintf("import %s \"%s\"\n", as, q.Path)
		top = fmt.Sprintf("type vrecv struct{ %s %s }\nfunc keepImport() { _ = %s.%s }\n", q.Fn, ftype, as, q.Fn)
		params = q.Pkg + " *vrecv"
	case "param+import+realcall", "localvar+import+realcall":
		// as the "+import" kinds, and the real package function is called with the same arguments in an
		// earlier function of the file
		as := q.ImportAs
		if as == "" {
			as = q.Pkg
		}
		imp = fmt.Sprintf("import %s \"%s\"\n", as, q.Path)
		realUse := "func realUse() {\n\t" + strings.ReplaceAll(ctx, "%s", as+"."+q.Fn+"("+args+")") + "\n}\n"
		if decl == "param+import+realcall" {
			top = fmt.Sprintf("type vrecv struct{ %s %s }\n", q.Fn, ftype) + realUse
			params = q.Pkg + " *vrecv"
		} else {
			top = fmt.Sprintf("type vrecv struct{}\nfunc (vrecv) %s(%s) %s %s\n", q.Fn, sig.Params, sig.Results, body(sig)) + realUse
			pre = fmt.Sprintf("var %s vrecv\n\t", q.Pkg)
		}
	case "localvar+import":
		as := q.ImportAs
		if as == "" {
			as = q.Pkg
		}
		imp = fmt.Sprintf("import %s \"%s\"\n", as, q.Path)
		top = fmt.Sprintf("type vrecv struct{}\nfunc (vrecv) %s(%s) %s %s\nfunc keepImport() { _ = %s.%s }\n", q.Fn, sig.Params, sig.Results, body(sig), as, q.Fn)
		pre = fmt.Sprintf("var %s vrecv\n\t", q.Pkg)
	}
	stmt := strings.ReplaceAll(ctx, "%s", call)
	src := "package vpkg\n" + imp + prelude + top + "\nfunc subject(" + params + ") {\n\t" + pre + stmt + "\n}\n"
	id := fmt.Sprintf("shadowQ|%s.%s|%s|%s|%s|%s", q.Pkg, q.Fn, decl, sig.ID, args, ctx)
	return one(id, "shadowQ", src, map[string]string{"subject": q.Pkg + "." + q.Fn, "decl": decl, "sig": sig.ID, "args": args, "ctx": ctx, "real": "0"})
}

// FakePath is the import path of the fake package providing q.Fn with signature sig.
func FakePath(q QName, sig Sig) string { return "fake/" + sig.ID + "/" + q.Fn + "/" + q.Pkg }

// FakeSrc is the source of that fake package.
func FakeSrc(q QName, sig Sig) string {
	return fmt.Sprintf("package %s\n\nfunc %s%s(%s) %s %s\n", q.Pkg, q.Fn, sig.TParams, sig.Params, sig.Results, body(sig))
}

// RealQualified renders the control with the real import.
func RealQualified(q QName, args, ctx string) Prog {
	call := q.Pkg + "." + q.Fn + "(" + args + ")"
	stmt := strings.ReplaceAll(ctx, "%s", call)
	src := "package vpkg\nimport \"" + q.Path + "\"\n" + prelude + "\nfunc subject() {\n\t" + stmt + "\n}\n"
	id := fmt.Sprintf("realQ|%s.%s|%s|%s", q.Pkg, q.Fn, args, ctx)
	return one(id, "realQ", src, map[string]string{"subject": q.Pkg + "." + q.Fn, "decl": "real", "args": args, "ctx": ctx, "real": "1"})
}

// AllArgs is the union of all argument texts (used for the real-API controls).
func AllArgs() []string {
	seen := map[string]bool{}
	var out []string
	for _, s := range Sigs {
		for _, a := range s.Args {
			if !seen[a] {
				seen[a] = true
				out = append(out, a)
			}
		}
	}
	return out
}

// Shadow emits the whole shadow family. quick restricts the two largest holes pairwise:
// every (sig,args) with every context for decl kind 0, and every decl kind with every (sig,args)
// for a reduced context list.
func Shadow(quick bool, emit func(Prog)) {
	ctxs := Contexts
	reduced := []string{"%s", "_ = %s", "xs = %s", "_ = *%s", "v, err := %s; _, _ = v, err", "defer %s", "if %s > 0 && %s < 0 { }", "_ = func() []int { return %s }"}
	put := func(p Prog) {
		if p.ID != "" {
			emit(p)
		}
	}
	for _, name := range Builtins {
		for di, decl := range BuiltinDecls {
			for _, sig := range Sigs {
				for _, a := range sig.Args {
					cs := ctxs
					if quick && di != 0 {
						cs = reduced
					}
					for _, c := range cs {
						put(ShadowBuiltin(name, decl, sig, a, c))
					}
				}
			}
		}
		for _, a := range AllArgs() {
			for _, c := range ctxs {
				put(RealBuiltin(name, a, c))
			}
		}
	}
	for _, q := range Qualified {
		for di, decl := range QualDecls {
			for _, sig := range Sigs {
				for _, a := range sig.Args {
					cs := ctxs
					if quick && di != 0 {
						cs = reduced
					}
					for _, c := range cs {
						put(ShadowQualified(q, decl, sig, a, c))
					}
				}
			}
		}
		for _, a := range AllArgs() {
			for _, c := range ctxs {
				put(RealQualified(q, a, c))
			}
		}
	}
}

package progenum

import (
	"fmt"
	"go/ast"
	"go/parser"
	"go/token"
	"sort"
	"strings"
)

// An Edit replaces src[From:To] by Text.
type Edit struct {
	From, To int
	Text     string
}

// Mutant is one deviation: a set of edits applied to one file.
type Mutant struct {
	Op    string
	Site  string // file:line:col of the site
	Edits []Edit
	// Helpers the mutant needs at package level (deduplicated by the caller).
	Helper string
	// HelperSrc: declarations to be placed in a sibling file of the package (Helper == "sibling").
	HelperSrc string
}

// Apply applies the edits (non-overlapping) to src.
func Apply(src string, edits []Edit) string {
	es := append([]Edit{}, edits...)
	sort.Slice(es, func(i, j int) bool { return es[i].From > es[j].From })
	for _, e := range es {
		if e.From < 0 || e.To > len(src) || e.From > e.To {
			return src
		}
		src = src[:e.From] + e.Text + src[e.To:]
	}
	return src
}

var basicTypeNames = map[string]bool{"int": true, "int8": true, "int16": true, "int32": true, "int64": true, "uint": true, "uint8": true, "uint16": true, "uint32": true, "uint64": true,
	"byte": true, "rune": true, "float32": true, "float64": true, "string": true, "bool": true, "error": true}

// Helpers appended once to a mutated package (unique names; never mention predeclared identifiers
// other than `any`-free forms, because some example packages redeclare them).
const PairHelpers = `
func vmPair[A, B interface{}](a A, b B) (A, B) { return a, b }
func vmTriple[A, B, C interface{}](a A, b B, c C) (A, B, C) { return a, b, c }
func vmQuad[A, B, C, D interface{}](a A, b B, c C, d D) (A, B, C, D) { return a, b, c, d }
`

// Mutants enumerates all 1-deviation mutants of one source file. ops restricts the operator set
// (nil = all).
func Mutants(filename, src string, ops map[string]bool) []Mutant {
	fset := token.NewFileSet()
	f, err := parser.ParseFile(fset, filename, src, parser.ParseComments)
	if err != nil {
		return nil
	}
	off := func(p token.Pos) int { return fset.Position(p).Offset }
	site := func(p token.Pos) string {
		ps := fset.Position(p)
		return fmt.Sprintf("%s:%d:%d", filename, ps.Line, ps.Column)
	}
	want := func(op string) bool { return ops == nil || ops[op] }
	var out []Mutant
	add := func(op string, pos token.Pos, helper string, edits ...Edit) {
		if want(op) {
			out = append(out, Mutant{Op: op, Site: site(pos), Edits: edits, Helper: helper})
		}
	}
	text := func(n ast.Node) string { return src[off(n.Pos()):off(n.End())] }

	// type-position expressions get parenthesised
	parenType := func(e ast.Expr) {
		if e == nil {
			return
		}
		switch e.(type) {
		case *ast.ParenExpr, *ast.Ellipsis:
			return
		}
		add("parenType", e.Pos(), "", Edit{off(e.Pos()), off(e.End()), "(" + text(e) + ")"})
	}
	inCallArg := map[ast.Node]bool{}
	ast.Inspect(f, func(n ast.Node) bool {
		if c, ok := n.(*ast.CallExpr); ok {
			for _, a := range c.Args {
				inCallArg[a] = true
			}
		}
		return true
	})
	var funcStack []*ast.FuncType
	var visit func(n ast.Node) bool
	visit = func(n ast.Node) bool {
		switch n := n.(type) {
		case *ast.CallExpr:
			if n.Rparen.IsValid() && n.Lparen.IsValid() {
				if len(n.Args) > 0 {
					add("dropArgs", n.Pos(), "", Edit{off(n.Lparen) + 1, off(n.Rparen), ""})
					if len(n.Args) == 1 && !n.Ellipsis.IsValid() {
						// duplicate the only argument / add one
						add("dupArg", n.Pos(), "", Edit{off(n.Rparen), off(n.Rparen), ", " + text(n.Args[0])})
					}
					if len(n.Args) >= 2 {
						add("dropLastArg", n.Pos(), "", Edit{off(n.Args[len(n.Args)-2].End()), off(n.Rparen), ""})
						add("dropFirstArg", n.Pos(), "", Edit{off(n.Args[0].Pos()), off(n.Args[1].Pos()), ""})
					}
				}
				if !n.Ellipsis.IsValid() {
					var helper string
					switch len(n.Args) {
					case 2:
						helper = "vmPair"
					case 3:
						helper = "vmTriple"
					case 4:
						helper = "vmQuad"
					}
					if helper != "" {
						add("multiArgs", n.Pos(), "pair", Edit{off(n.Lparen) + 1, off(n.Lparen) + 1, helper + "("}, Edit{off(n.Rparen), off(n.Rparen), ")"})
					}
					if len(n.Args) > 0 {
						add("addEllipsis", n.Pos(), "", Edit{off(n.Rparen), off(n.Rparen), "..."})
					}
				} else {
					add("delEllipsis", n.Pos(), "", Edit{off(n.Ellipsis), off(n.Ellipsis) + 3, ""})
				}
				// parenthesise the callee
				add("parenFun", n.Pos(), "", Edit{off(n.Fun.Pos()), off(n.Fun.End()), "(" + text(n.Fun) + ")"})
			}
		case *ast.FuncDecl:
			if n.Recv != nil {
				for _, fld := range n.Recv.List {
					switch t := fld.Type.(type) {
					case *ast.ParenExpr:
						// one more pair of parentheses around an already parenthesised expression or type
						add("doubleParen", n.Pos(), "", Edit{off(n.Pos()), off(n.End()), "(" + text(n) + ")"})
					case *ast.StarExpr:
						add("parenRecv", t.Pos(), "", Edit{off(t.X.Pos()), off(t.X.End()), "(" + text(t.X) + ")"})
						add("parenRecvStar", t.Pos(), "", Edit{off(t.Pos()), off(t.End()), "(" + text(t) + ")"})
					default:
						add("parenRecv", fld.Type.Pos(), "", Edit{off(fld.Type.Pos()), off(fld.Type.End()), "(" + text(fld.Type) + ")"})
					}
					for _, nm := range fld.Names {
						add("blankIdent", nm.Pos(), "", Edit{off(nm.Pos()), off(nm.End()), "_"})
					}
					if len(fld.Names) == 1 {
						add("dropRecvName", fld.Pos(), "", Edit{off(fld.Names[0].Pos()), off(fld.Type.Pos()), ""})
					}
				}
			}
			if n.Body != nil {
				add("emptyBody", n.Pos(), "", Edit{off(n.Body.Lbrace) + 1, off(n.Body.Rbrace), ""})
				add("panicBody", n.Pos(), "", Edit{off(n.Body.Lbrace) + 1, off(n.Body.Rbrace), " panic(0) "})
				add("noBody", n.Pos(), "", Edit{off(n.Body.Pos()), off(n.Body.End()), ""})
				if n.Type.TypeParams == nil && n.Recv == nil && n.Name.Name != "main" && n.Name.Name != "init" {
					add("addTypeParam", n.Pos(), "", Edit{off(n.Name.End()), off(n.Name.End()), "[VMT interface{}]"})
				}
			}
		case *ast.FuncType:
			if n.Params != nil {
				for _, fld := range n.Params.List {
					parenType(fld.Type)
					for _, nm := range fld.Names {
						if nm.Name != "_" {
							add("blankIdent", nm.Pos(), "", Edit{off(nm.Pos()), off(nm.End()), "_"})
						}
					}
				}
			}
			if n.Results != nil {
				for _, fld := range n.Results.List {
					parenType(fld.Type)
				}
			}
		case *ast.ReturnStmt:
			// bare return: name the results of the enclosing function
			if len(funcStack) > 0 && len(n.Results) > 0 {
				ft := funcStack[len(funcStack)-1]
				if ft.Results != nil && len(ft.Results.List) == len(n.Results) {
					named := false
					for _, fld := range ft.Results.List {
						if len(fld.Names) > 0 {
							named = true
						}
					}
					if !named {
						var edits []Edit
						var names []string
						for i, fld := range ft.Results.List {
							nm := fmt.Sprintf("vmr%d", i)
							names = append(names, nm)
							edits = append(edits, Edit{off(fld.Type.Pos()), off(fld.Type.Pos()), nm + " "})
						}
						if !ft.Results.Opening.IsValid() {
							edits = append(edits, Edit{off(ft.Results.Pos()), off(ft.Results.Pos()), "("}, Edit{off(ft.Results.End()), off(ft.Results.End()), ")"})
							// merge the two insertions at Results.Pos()
							edits = mergeSamePos(edits)
						}
						var rhs []string
						for _, r := range n.Results {
							rhs = append(rhs, text(r))
						}
						edits = append(edits, Edit{off(n.Pos()), off(n.End()), strings.Join(names, ", ") + " = " + strings.Join(rhs, ", ") + "; return"})
						add("bareReturn", n.Pos(), "", edits...)
					}
				}
			}
		case *ast.SwitchStmt:
			add("emptySwitch", n.Pos(), "", Edit{off(n.Body.Lbrace) + 1, off(n.Body.Rbrace), ""})
			if n.Tag != nil {
				add("dropSwitchTag", n.Pos(), "", Edit{off(n.Tag.Pos()), off(n.Tag.End()), "true"})
			}
		case *ast.TypeSwitchStmt:
			add("emptySwitch", n.Pos(), "", Edit{off(n.Body.Lbrace) + 1, off(n.Body.Rbrace), ""})
		case *ast.SelectStmt:
			add("emptySwitch", n.Pos(), "", Edit{off(n.Body.Lbrace) + 1, off(n.Body.Rbrace), ""})
		case *ast.CaseClause:
			if len(n.List) > 0 {
				add("caseToDefault", n.Pos(), "", Edit{off(n.Pos()), off(n.Colon), "default"})
				add("emptyCaseBody", n.Pos(), "", Edit{off(n.Colon) + 1, off(n.End()), ""})
			}
		case *ast.StructType:
			if n.Fields != nil && n.Fields.Opening.IsValid() && len(n.Fields.List) > 0 {
				add("emptyStruct", n.Pos(), "", Edit{off(n.Fields.Opening) + 1, off(n.Fields.Closing), ""})
			}
			if n.Fields != nil {
				for _, fld := range n.Fields.List {
					parenType(fld.Type)
				}
			}
		case *ast.InterfaceType:
			if n.Methods != nil && n.Methods.Opening.IsValid() && len(n.Methods.List) > 0 {
				add("emptyStruct", n.Pos(), "", Edit{off(n.Methods.Opening) + 1, off(n.Methods.Closing), ""})
			}
		case *ast.BlockStmt:
			if len(n.List) > 0 {
				add("emptyBlock", n.Pos(), "", Edit{off(n.Lbrace) + 1, off(n.Rbrace), ""})
			}
			if want("insertBetween") {
				// an unrelated marker statement between every two adjacent statements
				for i := 0; i+1 < len(n.List); i++ {
					out = append(out, Mutant{Op: "insertBetween", Site: site(n.List[i].End()), Helper: "sibling", HelperSrc: "func vmBetween() {}\n",
						Edits: []Edit{{off(n.List[i].End()), off(n.List[i].End()), "; vmBetween()"}}})
				}
			}
		case *ast.Ident:
			if want("retype") && basicTypeNames[n.Name] {
				// the same code over a defined type and over an alias of a defined type
				out = append(out, Mutant{Op: "retype", Site: site(n.Pos()), Helper: "sibling", HelperSrc: "type vmDefT " + n.Name + "\n",
					Edits: []Edit{{off(n.Pos()), off(n.End()), "vmDefT"}}})
				out = append(out, Mutant{Op: "retype", Site: site(n.Pos()), Helper: "sibling", HelperSrc: "type vmDefT " + n.Name + "\ntype vmAliT = vmDefT\n",
					Edits: []Edit{{off(n.Pos()), off(n.End()), "vmAliT"}}})
			}
		case *ast.MapType:
			parenType(n.Key)
			parenType(n.Value)
			if want("retype") {
				out = append(out, Mutant{Op: "retype", Site: site(n.Pos()), Helper: "sibling", HelperSrc: "type vmDefT " + text(n) + "\n",
					Edits: []Edit{{off(n.Pos()), off(n.End()), "vmDefT"}}})
			}
		case *ast.ForStmt:
			if n.Cond != nil {
				add("dropForCond", n.Pos(), "", Edit{off(n.Cond.Pos()), off(n.Cond.End()), ""})
			}
		case *ast.RangeStmt:
			if n.Key != nil && n.Tok == token.DEFINE {
				add("rangeNoVars", n.Pos(), "", Edit{off(n.Key.Pos()), off(n.X.Pos()), "range "})
			}
			for _, e := range []ast.Expr{n.Key, n.Value} {
				if id, ok := e.(*ast.Ident); ok && id.Name != "_" {
					add("blankIdent", id.Pos(), "", Edit{off(id.Pos()), off(id.End()), "_"})
				}
			}
		case *ast.AssignStmt:
			if n.Tok == token.DEFINE || n.Tok == token.ASSIGN {
				for _, e := range n.Lhs {
					if id, ok := e.(*ast.Ident); ok && id.Name != "_" {
						add("blankIdent", id.Pos(), "", Edit{off(id.Pos()), off(id.End()), "_"})
					}
				}
			}
		case *ast.ValueSpec:
			parenType(n.Type)
		case *ast.TypeSpec:
			if n.TypeParams == nil && !n.Assign.IsValid() {
				parenType(n.Type)
			}
		case *ast.CompositeLit:
			if n.Type != nil {
				if _, isArr := n.Type.(*ast.ArrayType); !isArr {
					parenType(n.Type)
				}
			}
			if len(n.Elts) > 0 {
				add("emptyLit", n.Pos(), "", Edit{off(n.Lbrace) + 1, off(n.Rbrace), ""})
			}
		case *ast.TypeAssertExpr:
			parenType(n.Type)
		case *ast.ArrayType:
			parenType(n.Elt)
			if want("retype") && n.Len == nil {
				out = append(out, Mutant{Op: "retype", Site: site(n.Pos()), Helper: "sibling", HelperSrc: "type vmDefT " + text(n) + "\n",
					Edits: []Edit{{off(n.Pos()), off(n.End()), "vmDefT"}}})
			}
		case *ast.ParenExpr:
			// one more pair of parentheses around an already parenthesised expression or type
			add("doubleParen", n.Pos(), "", Edit{off(n.Pos()), off(n.End()), "(" + text(n) + ")"})
		case *ast.StarExpr:
			add("parenStarX", n.Pos(), "", Edit{off(n.X.Pos()), off(n.X.End()), "(" + text(n.X) + ")"})
		case *ast.BinaryExpr:
			add("parenOperandX", n.Pos(), "", Edit{off(n.X.Pos()), off(n.X.End()), "(" + text(n.X) + ")"})
			add("parenOperandY", n.Pos(), "", Edit{off(n.Y.Pos()), off(n.Y.End()), "(" + text(n.Y) + ")"})
			add("swapOperands", n.Pos(), "", Edit{off(n.X.Pos()), off(n.X.End()), text(n.Y)}, Edit{off(n.Y.Pos()), off(n.Y.End()), text(n.X)})
		case *ast.UnaryExpr:
			add("parenOperandX", n.Pos(), "", Edit{off(n.X.Pos()), off(n.X.End()), "(" + text(n.X) + ")"})
		case *ast.IndexExpr:
			add("parenOperandX", n.Pos(), "", Edit{off(n.X.Pos()), off(n.X.End()), "(" + text(n.X) + ")"})
			add("parenIndex", n.Pos(), "", Edit{off(n.Index.Pos()), off(n.Index.End()), "(" + text(n.Index) + ")"})
		case *ast.SliceExpr:
			add("parenOperandX", n.Pos(), "", Edit{off(n.X.Pos()), off(n.X.End()), "(" + text(n.X) + ")"})
			add("sliceAll", n.Pos(), "", Edit{off(n.Lbrack) + 1, off(n.Rbrack), ":"})
		case *ast.SelectorExpr:
			add("parenOperandX", n.Pos(), "", Edit{off(n.X.Pos()), off(n.X.End()), "(" + text(n.X) + ")"})
		case *ast.GenDecl:
			if n.Lparen.IsValid() && len(n.Specs) > 0 && n.Tok != token.IMPORT {
				add("emptyGenDecl", n.Pos(), "", Edit{off(n.Lparen) + 1, off(n.Rparen), ""})
			}
		case *ast.IfStmt:
			if n.Else != nil {
				add("dropElse", n.Pos(), "", Edit{off(n.Body.End()), off(n.Else.End()), ""})
			}
			if n.Init != nil {
				add("dropIfInit", n.Pos(), "", Edit{off(n.Init.Pos()), off(n.Cond.Pos()), ""})
			}
		case *ast.LabeledStmt:
			add("dropLabel", n.Pos(), "", Edit{off(n.Pos()), off(n.Stmt.Pos()), ""})
		case *ast.BasicLit:
			if n.Kind == token.STRING {
				add("emptyString", n.Pos(), "", Edit{off(n.Pos()), off(n.End()), `""`})
			}
			if (n.Kind == token.STRING || n.Kind == token.INT) && inCallArg[n] && want("constInSiblingFile") {
				// the literal becomes a named constant declared in another file of the package
				out = append(out, Mutant{Op: "constInSiblingFile", Site: site(n.Pos()), Helper: "sibling",
					HelperSrc: "const vmSiblingConst = " + text(n) + "\n",
					Edits:     []Edit{{off(n.Pos()), off(n.End()), "vmSiblingConst"}}})
			}
			if n.Kind == token.INT {
				add("zeroInt", n.Pos(), "", Edit{off(n.Pos()), off(n.End()), "0"})
			}
		}
		return true
	}
	// walk with a function-type stack for bareReturn
	var walk func(n ast.Node)
	walk = func(n ast.Node) {
		ast.Inspect(n, func(c ast.Node) bool {
			if c == nil {
				return false
			}
			switch c := c.(type) {
			case *ast.FuncDecl:
				visit(c)
				visit(c.Type)
				if c.Recv != nil {
					// receiver handled in visit(c)
				}
				funcStack = append(funcStack, c.Type)
				if c.Body != nil {
					walkChildren(c.Body, walk, visit)
				}
				funcStack = funcStack[:len(funcStack)-1]
				return false
			case *ast.FuncLit:
				visit(c.Type)
				funcStack = append(funcStack, c.Type)
				walkChildren(c.Body, walk, visit)
				funcStack = funcStack[:len(funcStack)-1]
				return false
			}
			return visit(c)
		})
	}
	walk(f)

	// comments: drop each comment group; turn // into /* */
	for _, cg := range f.Comments {
		add("dropComment", cg.Pos(), "", Edit{off(cg.Pos()), off(cg.End()), ""})
	}
	return out
}

func walkChildren(b *ast.BlockStmt, walk func(ast.Node), visit func(ast.Node) bool) {
	visit(b)
	for _, st := range b.List {
		walk(st)
	}
}

func mergeSamePos(edits []Edit) []Edit {
	// insertions at the same offset: concatenate in a fixed order ("(" before names)
	byPos := map[int][]Edit{}
	var order []int
	var out []Edit
	for _, e := range edits {
		if e.From == e.To {
			if _, ok := byPos[e.From]; !ok {
				order = append(order, e.From)
			}
			byPos[e.From] = append(byPos[e.From], e)
		} else {
			out = append(out, e)
		}
	}
	for _, p := range order {
		es := byPos[p]
		sort.SliceStable(es, func(i, j int) bool { return es[i].Text == "(" && es[j].Text != "(" })
		t := ""
		for _, e := range es {
			t += e.Text
		}
		out = append(out, Edit{p, p, t})
	}
	return out
}

// MutantPairs enumerates the 2-deviation mutants of one source file within a locality bound: every
// unordered pair of 1-deviation mutants (operator set ops) whose sites lie in the same top-level
// declaration and whose edits do not overlap or touch. Both deviations are applied together; the
// helpers of both are kept (a pair whose helpers declare the same name is dropped by the type checker
// like any other ill-typed candidate). maxLines >= 0 additionally bounds the distance between the two
// sites in source lines (0 = same line).
func MutantPairs(filename, src string, ops map[string]bool, maxLines int) []Mutant {
	ms := Mutants(filename, src, ops)
	if len(ms) < 2 {
		return nil
	}
	fset := token.NewFileSet()
	f, err := parser.ParseFile(fset, filename, src, parser.ParseComments)
	if err != nil {
		return nil
	}
	type span struct{ from, to int }
	var decls []span
	for _, d := range f.Decls {
		decls = append(decls, span{fset.Position(d.Pos()).Offset, fset.Position(d.End()).Offset})
	}
	declOf := func(m *Mutant) int {
		if len(m.Edits) == 0 {
			return -1
		}
		lo, hi := m.Edits[0].From, m.Edits[0].To
		for _, e := range m.Edits {
			if e.From < lo {
				lo = e.From
			}
			if e.To > hi {
				hi = e.To
			}
		}
		for i, d := range decls {
			if lo >= d.from && hi <= d.to {
				return i
			}
		}
		return -1
	}
	disjoint := func(a, b []Edit) bool {
		for _, x := range a {
			for _, y := range b {
				if x.From <= y.To && y.From <= x.To { // overlapping or touching
					return false
				}
			}
		}
		return true
	}
	byDecl := map[int][]int{}
	var order []int
	for i := range ms {
		d := declOf(&ms[i])
		if d < 0 {
			continue
		}
		if _, ok := byDecl[d]; !ok {
			order = append(order, d)
		}
		byDecl[d] = append(byDecl[d], i)
	}
	var out []Mutant
	for _, d := range order {
		idx := byDecl[d]
		for x := 0; x < len(idx); x++ {
			for y := x + 1; y < len(idx); y++ {
				a, b := &ms[idx[x]], &ms[idx[y]]
				if !disjoint(a.Edits, b.Edits) {
					continue
				}
				if maxLines >= 0 {
					la, lb := lineOf(src, a.Edits[0].From), lineOf(src, b.Edits[0].From)
					if la-lb > maxLines || lb-la > maxLines {
						continue
					}
				}
				m := Mutant{Op: a.Op + "+" + b.Op, Site: a.Site + "+" + b.Site[strings.Index(b.Site, ":")+1:]}
				m.Edits = append(append([]Edit{}, a.Edits...), b.Edits...)
				switch {
				case a.Helper == "sibling" || b.Helper == "sibling":
					m.Helper = "sibling"
					m.HelperSrc = a.HelperSrc + b.HelperSrc
					if a.Helper == "pair" || b.Helper == "pair" {
						m.HelperSrc += PairHelpers
					}
				case a.Helper == "pair" || b.Helper == "pair":
					m.Helper = "pair"
				}
				out = append(out, m)
			}
		}
	}
	return out
}

func lineOf(src string, off int) int {
	if off > len(src) {
		off = len(src)
	}
	return strings.Count(src[:off], "\n")
}

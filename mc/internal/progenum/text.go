package progenum

import (
	"fmt"
	"strconv"
	"strings"
)

var commentStarts = []string{"//", "// ", "/*", "/* ", "//nolint", "// nolint", "// TODO", "//TODO", "// Deprecated", "// deprecated", "// Code generated", "// F", "//go:", "///"}

var commentAlphabet = []string{" ", "nolint", ":", "TODO", "Deprecated", ",", ".", "x", "\"", "\n//", "é", "(", ")", ":=", "1", "fmt.Println", "import", "func", "DO NOT EDIT.", "F", "*/ /*", "is"}

var commentPositions = []struct{ id, tmpl string }{
	{"filedoc", "%s\npackage vpkg\n\nfunc F() {}\n"},
	{"declDoc", "package vpkg\n\n%s\nfunc F() {}\n"},
	{"typeDoc", "package vpkg\n\n%s\ntype F struct {\n\ta int %s\n}\n"},
	{"inBody", "package vpkg\n\nfunc F() {\n\t%s\n\tx := 1\n\t_ = x\n}\n"},
	{"trailing", "package vpkg\n\nfunc F() {\n\tx := 1 %s\n\t_ = x\n}\n"},
	{"imports", "package vpkg\n\nimport (\n\t%s\n\t\"fmt\"\n)\n\nvar _ = fmt.Sprint\n"},
	{"afterPkg", "package vpkg %s\n\nvar F = 1\n"},
}

// Comments emits every comment text start x alphabet^<=k in every position.
func Comments(k int, emit func(Prog)) {
	var texts []string
	var rec func(prefix string, depth int)
	rec = func(prefix string, depth int) {
		texts = append(texts, prefix)
		if depth == k {
			return
		}
		for _, a := range commentAlphabet {
			rec(prefix+a, depth+1)
		}
	}
	for _, s := range commentStarts {
		rec(s, 0)
	}
	for _, t := range texts {
		c := t
		if strings.HasPrefix(t, "/*") {
			c = t + "*/"
		}
		for _, p := range commentPositions {
			src := strings.ReplaceAll(p.tmpl, "%s", c)
			emit(one("comment|"+p.id+"|"+c, "comment", src, map[string]string{"pos": p.id, "comment": c}))
		}
	}
}

var patternTokens = []string{"a", "b", ".", "*", "+", "?", "|", "(", ")", "[", "]", "^", "$", `\.`, `\d`, "-", "{", "}", "1", ",", "?:", "?P<n>", "?i", ":", `\`, "[:alpha:]", `\pL`, `\Q`, `\E`, `\x41`, "é", " "}

// PatternStrings enumerates token strings up to length n.
func PatternStrings(n int) []string {
	var out []string
	var rec func(prefix string, depth int)
	rec = func(prefix string, depth int) {
		out = append(out, prefix)
		if depth == n {
			return
		}
		for _, t := range patternTokens {
			rec(prefix+t, depth+1)
		}
	}
	rec("", 0)
	return out
}

// FlagGroupPatterns enumerates regexp flag-group syntax: (?F), (?F:a), a(?F)b, (?F)(?G) for every flag
// string F, G over the flag alphabet up to length 2 (letters, digits, punctuation, blank, non-ASCII).
func FlagGroupPatterns() []string {
	alpha := []string{"i", "m", "s", "U", "-", "1", "0", "&", "+", " ", "@", "^", "P", "<", "=", "!", ":", "é", "z", "A", "{", "~"}
	var flags []string
	for _, a := range alpha {
		flags = append(flags, a)
		for _, b := range alpha {
			flags = append(flags, a+b)
		}
	}
	var out []string
	for _, f := range flags {
		out = append(out, "(?"+f+")", "(?"+f+":a)", "a(?"+f+")b", "(a)(?"+f+")", "(?"+f+")(?i)", "(?i)(?"+f+")", "^(?"+f+"a$")
	}
	return out
}

// StringBatch renders a program feeding each string constant to the regexp- and format-analysing
// call shapes.
func StringBatch(id string, strs []string) Prog {
	var b strings.Builder
	b.WriteString("package vpkg\n\nimport (\n\t\"fmt\"\n\t\"regexp\"\n\t\"flag\"\n)\n\nvar sarg string\n\nfunc F() {\n")
	for _, s := range strs {
		q := strconv.Quote(s)
		fmt.Fprintf(&b, "\t_ = regexp.MustCompile(%s)\n", q)
		fmt.Fprintf(&b, "\t_, _ = regexp.Compile(%s + %s)\n", q, `""`)
		fmt.Fprintf(&b, "\t_ = fmt.Sprintf(%s, sarg)\n", q)
		fmt.Fprintf(&b, "\t_ = flag.Bool(%s, false, %s)\n", q, q)
	}
	b.WriteString("}\n")
	return one("strings|"+id, "strings", b.String(), map[string]string{"batch": id})
}

// Strings emits batches of size bs over PatternStrings(n).
func Strings(n, bs int, emit func(Prog)) {
	all := append(PatternStrings(n), FlagGroupPatterns()...)
	for i := 0; i < len(all); i += bs {
		j := i + bs
		if j > len(all) {
			j = len(all)
		}
		emit(StringBatch(fmt.Sprintf("%d-%d", i, j), all[i:j]))
	}
}

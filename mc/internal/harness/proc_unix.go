package harness

import (
	"os/exec"
	"syscall"
	"time"
)

func setpgid(cmd *exec.Cmd) { cmd.SysProcAttr = &syscall.SysProcAttr{Setpgid: true} }

func killpg(cmd *exec.Cmd) {
	if cmd.Process != nil {
		syscall.Kill(-cmd.Process.Pid, syscall.SIGKILL)
	}
}

func timeAfter() <-chan time.Time { return time.After(10 * time.Second) }

package harness

import (
	"go/ast"
	"go/parser"
	"go/token"
	"sort"
	"strings"

	"bufio"
	"encoding/json"
	"fmt"
	"io"
	"os"
	"os/exec"
	"path/filepath"
	"sync"

	"verif/mc/internal/evidence"
)

var (
	overlayOnce sync.Once
	overlayPath string
)

// Overlay writes (once) the overlay JSON that adds the files under /verif/overlays to the
// go-critic packages of RepoDir. Nothing in RepoDir is touched.
func Overlay() string {
	overlayOnce.Do(func() {
		ov := filepath.Join(evidence.Root, "overlays")
		repl := map[string]string{
			filepath.Join(RepoDir, "checkers", "verif_probes.go"):            filepath.Join(ov, "checkers", "verif_probes.go"),
			filepath.Join(RepoDir, "checkers", "analyzer", "verif_hooks.go"): filepath.Join(ov, "analyzer", "verif_hooks.go"),
			filepath.Join(RepoDir, "cmd", "go-critic", "verif_rpc.go"):       filepath.Join(ov, "cmdmain", "verif_rpc.go"),
			filepath.Join(RepoDir, "cmd", "gocritic", "verif_rpc.go"):        filepath.Join(ov, "cmdmain", "verif_rpc.go"),
		}
		// VerifReset is generated from the current sources: it zeroes every package-level variable of the
		// analyzer package whose name starts with "global" (the cached configuration latch), whatever its type
		if gen := genAnalyzerReset(); gen != "" {
			dst := filepath.Join(WorkDir(), "gen", "verif_reset.go")
			os.MkdirAll(filepath.Dir(dst), 0o755)
			os.WriteFile(dst, []byte(gen), 0o644)
			repl[filepath.Join(RepoDir, "checkers", "analyzer", "verif_reset.go")] = dst
		}
		// the call of program.isGenerated is generated from its current signature in each main (a refactoring
		// may add e.g. a file-name parameter)
		for _, m := range []string{"go-critic", "gocritic"} {
			dst := filepath.Join(WorkDir(), "gen", m, "verif_isgen.go")
			os.MkdirAll(filepath.Dir(dst), 0o755)
			os.WriteFile(dst, []byte(genIsGeneratedCall(filepath.Join(RepoDir, "cmd", m))), 0o644)
			repl[filepath.Join(RepoDir, "cmd", m, "verif_isgen.go")] = dst
		}
		for k, v := range ExtraOverlay {
			repl[k] = v
		}
		data, _ := json.Marshal(map[string]interface{}{"Replace": repl})
		overlayPath = filepath.Join(WorkDir(), "overlay.json")
		if err := os.WriteFile(overlayPath, data, 0o644); err != nil {
			fmt.Fprintln(os.Stderr, err)
			os.Exit(2)
		}
	})
	return overlayPath
}

// ExtraOverlay lets a check add generated (rewritten) files before Overlay() is first called.
var ExtraOverlay = map[string]string{}

// BuildInstr builds a repo main package with the verif tag and the overlay.
func BuildInstr(pkg string) (string, error) {
	return BuildBin(pkg, "-tags", "verif", "-overlay", Overlay())
}

// BuildHarnessBin builds a main package of the harness module (e.g. "./cmd/anrpc") with tag+overlay.
func BuildHarnessBin(pkg string, extra ...string) (string, error) {
	binMu.Lock()
	defer binMu.Unlock()
	key := "mc:" + pkg + fmt.Sprint(extra)
	if p, ok := binCache[key]; ok {
		return p, nil
	}
	out := filepath.Join(WorkDir(), "bin", fmt.Sprintf("%d-%s", len(binCache), filepath.Base(pkg)))
	os.MkdirAll(filepath.Dir(out), 0o755)
	args := append([]string{"build", "-o", out, "-tags", "verif", "-overlay", Overlay()}, extra...)
	args = append(args, pkg)
	cmd := exec.Command("go", args...)
	cmd.Dir = filepath.Join(evidence.Root, "mc")
	cmd.Env = GoEnv()
	b, err := cmd.CombinedOutput()
	if err != nil {
		return "", fmt.Errorf("go build %s: %v\n%s", pkg, err, b)
	}
	binCache[key] = out
	return out, nil
}

// RPC is a JSON-lines client of one child process.
type RPC struct {
	cmd *exec.Cmd
	in  io.WriteCloser
	out *bufio.Reader
	mu  sync.Mutex
}

func StartRPC(bin string, dir string, env []string, args ...string) (*RPC, error) {
	cmd := exec.Command(bin, args...)
	cmd.Dir = dir
	cmd.Env = append(os.Environ(), env...)
	cmd.Stderr = os.Stderr
	setpgid(cmd)
	in, err := cmd.StdinPipe()
	if err != nil {
		return nil, err
	}
	out, err := cmd.StdoutPipe()
	if err != nil {
		return nil, err
	}
	if err := cmd.Start(); err != nil {
		return nil, err
	}
	return &RPC{cmd: cmd, in: in, out: bufio.NewReaderSize(out, 1<<20)}, nil
}

// Call sends one request and decodes one response.
func (r *RPC) Call(req interface{}, resp interface{}) error {
	r.mu.Lock()
	defer r.mu.Unlock()
	data, err := json.Marshal(req)
	if err != nil {
		return err
	}
	if _, err := r.in.Write(append(data, '\n')); err != nil {
		return fmt.Errorf("rpc write: %w", err)
	}
	line, err := r.out.ReadBytes('\n')
	if err != nil {
		return fmt.Errorf("rpc read: %w (child died?)", err)
	}
	return json.Unmarshal(line, resp)
}

func (r *RPC) Close() {
	r.in.Close()
	done := make(chan struct{})
	go func() { r.cmd.Wait(); close(done) }()
	select {
	case <-done:
	case <-timeAfter():
		killpg(r.cmd)
		<-done
	}
}

func genAnalyzerReset() string {
	dir := filepath.Join(RepoDir, "checkers", "analyzer")
	fset := token.NewFileSet()
	pkgs, err := parser.ParseDir(fset, dir, func(fi os.FileInfo) bool { return !strings.HasSuffix(fi.Name(), "_test.go") }, 0)
	if err != nil {
		return ""
	}
	var names []string
	for _, p := range pkgs {
		for _, f := range p.Files {
			for _, d := range f.Decls {
				gd, ok := d.(*ast.GenDecl)
				if !ok || gd.Tok != token.VAR {
					continue
				}
				for _, sp := range gd.Specs {
					for _, n := range sp.(*ast.ValueSpec).Names {
						if strings.HasPrefix(n.Name, "global") {
							names = append(names, n.Name)
						}
					}
				}
			}
		}
	}
	sort.Strings(names)
	var b strings.Builder
	b.WriteString("//go:build verif\n\n// Generated per build by the verification harness (never committed to /repo).\npackage analyzer\n\nfunc verifZero[T any](p *T) {\n\tvar z T\n\t*p = z\n}\n\n// VerifReset puts the cached-configuration latch into its initial state.\nfunc VerifReset() {\n")
	for _, n := range names {
		b.WriteString("\tverifZero(&" + n + ")\n")
	}
	b.WriteString("}\n\n// VerifLatchVars lists what VerifReset zeroes.\nvar VerifLatchVars = []string{")
	for _, n := range names {
		b.WriteString("\"" + n + "\", ")
	}
	b.WriteString("}\n")
	return b.String()
}

// genIsGeneratedCall writes verifIsGenerated(p, name, f), which calls (p *program).isGenerated with the
// arguments its current signature asks for: every string parameter gets the file name, every *ast.File
// parameter the file. A signature it cannot serve yields a stub that does not compile on purpose with a
// telling name (the harness then reports a broken check, not a violation).
func genIsGeneratedCall(dir string) string {
	fset := token.NewFileSet()
	pkgs, err := parser.ParseDir(fset, dir, func(fi os.FileInfo) bool { return !strings.HasSuffix(fi.Name(), "_test.go") }, 0)
	args := []string{"f"}
	if err == nil {
		for _, p := range pkgs {
			for _, f := range p.Files {
				for _, d := range f.Decls {
					fd, ok := d.(*ast.FuncDecl)
					if !ok || fd.Recv == nil || fd.Name.Name != "isGenerated" {
						continue
					}
					args = nil
					for _, fl := range fd.Type.Params.List {
						a := "verifUnknownParameterOfIsGenerated"
						switch t := fl.Type.(type) {
						case *ast.Ident:
							if t.Name == "string" {
								a = "name"
							}
						case *ast.StarExpr:
							a = "f"
						}
						n := len(fl.Names)
						if n == 0 {
							n = 1
						}
						for i := 0; i < n; i++ {
							args = append(args, a)
						}
					}
				}
			}
		}
	}
	return "//go:build verif\n\n// Generated per build by the verification harness (never committed to /repo).\npackage main\n\nimport \"go/ast\"\n\nfunc verifIsGenerated(p *program, name string, f *ast.File) bool {\n\t_ = name\n\treturn p.isGenerated(" + strings.Join(args, ", ") + ")\n}\n"
}

// Package harness loads Go source into go/types form inside one shared type universe and runs
// the real go-critic checkers over it exactly the way cmd/go-critic does.
package harness

import (
	"bytes"
	"fmt"
	"go/ast"
	"go/build"
	"go/importer"
	"go/parser"
	"go/token"
	"go/types"
	"os"
	"os/exec"
	"path/filepath"
	"runtime"
	"runtime/debug"
	"sort"
	"strings"
	"sync"
	"time"

	"github.com/go-critic/go-critic/checkers"
	"github.com/go-critic/go-critic/linter"
)

// RepoDir is the go-critic checkout under test.
var RepoDir = func() string {
	if v := os.Getenv("VERIF_REPO"); v != "" {
		return v
	}
	return "/repo"
}()

// Fset is the single process-wide file set (the CLI also uses one per run).
var Fset = token.NewFileSet()

var Sizes = types.SizesFor("gc", runtime.GOARCH)

var initOnce sync.Once

// Init registers the embedded rule checkers, as every main() of go-critic does.
func Init() {
	initOnce.Do(func() {
		if err := checkers.InitEmbeddedRules(); err != nil {
			fmt.Fprintf(os.Stderr, "InitEmbeddedRules: %v\n", err)
			os.Exit(2)
		}
	})
}

// ---------------------------------------------------------------------------------------------
// importer: one universe per process

type univ struct {
	mu    sync.Mutex
	imu   sync.Mutex
	std   types.ImporterFrom
	dirs  map[string]string // non-std import path -> dir
	cache map[string]*types.Package
	extra map[string]*types.Package // packages registered by the harness (fake helper packages)
}

var U = newUniv()

func newUniv() *univ {
	build.Default.CgoEnabled = false
	u := &univ{cache: map[string]*types.Package{}, extra: map[string]*types.Package{}}
	u.std = importer.ForCompiler(Fset, "source", nil).(types.ImporterFrom)
	return u
}

func (u *univ) loadDirs() {
	if u.dirs != nil {
		return
	}
	u.dirs = map[string]string{}
	cmd := exec.Command("go", "list", "-deps", "-test", "-f", "{{if not .Standard}}{{.ImportPath}}\t{{.Dir}}{{end}}", "./...")
	cmd.Dir = RepoDir
	cmd.Env = append(os.Environ(), "GOFLAGS=-mod=mod", "GOPROXY=off", "GOSUMDB=off", "GOTOOLCHAIN=local")
	out, err := cmd.Output()
	if err != nil {
		fmt.Fprintf(os.Stderr, "go list -deps in %s: %v\n", RepoDir, err)
		os.Exit(2)
	}
	for _, line := range strings.Split(string(out), "\n") {
		parts := strings.Split(line, "\t")
		if len(parts) == 2 && !strings.Contains(parts[0], " ") {
			u.dirs[parts[0]] = parts[1]
		}
	}
}

func (u *univ) Lock()   { u.mu.Lock() }
func (u *univ) Unlock() { u.mu.Unlock() }

func (u *univ) Import(path string) (*types.Package, error) { return u.ImportFrom(path, "", 0) }

// FakeResolver, when set, supplies source text for import paths starting with "fake/".
var FakeResolver func(path string) (src string, ok bool)

// ImportFrom is safe for concurrent use (the source importer underneath is not, so it is serialised).
func (u *univ) ImportFrom(path, srcDir string, mode types.ImportMode) (*types.Package, error) {
	if path == "unsafe" {
		return types.Unsafe, nil
	}
	u.imu.Lock()
	defer u.imu.Unlock()
	return u.importLocked(path)
}

func (u *univ) importLocked(path string) (*types.Package, error) {
	if strings.HasPrefix(path, "fake/") && FakeResolver != nil {
		if p, ok := u.cache[path]; ok {
			return p, nil
		}
		src, ok := FakeResolver(path)
		if !ok {
			return nil, fmt.Errorf("no fake package %q", path)
		}
		f, err := parser.ParseFile(Fset, "/vfake/"+path+"/f.go", src, 0)
		if err != nil {
			return nil, err
		}
		conf := types.Config{Importer: lockedImporter{u}, Sizes: Sizes, Error: func(error) {}}
		pkg, _ := conf.Check(path, Fset, []*ast.File{f}, nil)
		u.cache[path] = pkg
		return pkg, nil
	}
	u.mu.Lock()
	if p, ok := u.extra[path]; ok {
		u.mu.Unlock()
		return p, nil
	}
	u.mu.Unlock()
	if p, ok := u.cache[path]; ok {
		return p, nil
	}
	first := path
	if i := strings.Index(path, "/"); i >= 0 {
		first = path[:i]
	}
	if !strings.Contains(first, ".") {
		return u.std.ImportFrom(path, "", 0)
	}
	modPrefix := "github.com/go-critic/go-critic/"
	var dir string
	if strings.HasPrefix(path, modPrefix) {
		dir = filepath.Join(RepoDir, path[len(modPrefix):])
	} else {
		u.loadDirs()
		dir = u.dirs[path]
	}
	if dir == "" {
		return nil, fmt.Errorf("harness importer: cannot resolve %q", path)
	}
	bp, err := build.Default.ImportDir(dir, 0)
	if err != nil {
		return nil, err
	}
	var files []*ast.File
	for _, name := range bp.GoFiles {
		f, err := parser.ParseFile(Fset, filepath.Join(dir, name), nil, 0)
		if err != nil {
			return nil, err
		}
		files = append(files, f)
	}
	conf := types.Config{Importer: lockedImporter{u}, Sizes: Sizes, Error: func(error) {}}
	pkg, _ := conf.Check(path, Fset, files, nil)
	u.cache[path] = pkg
	return pkg, nil
}

// lockedImporter is used for nested imports while imu is already held.
type lockedImporter struct{ u *univ }

func (l lockedImporter) Import(path string) (*types.Package, error) {
	if path == "unsafe" {
		return types.Unsafe, nil
	}
	return l.u.importLocked(path)
}

// Register makes pkg importable under its path for later Load calls.
func Register(pkg *types.Package) {
	U.mu.Lock()
	U.extra[pkg.Path()] = pkg
	U.mu.Unlock()
}

// ---------------------------------------------------------------------------------------------

type File struct {
	Name string
	Src  string
}

type Pkg struct {
	Dir   string
	Path  string
	Names []string
	Src   map[string]string
	Files []*ast.File
	Info  *types.Info
	Types *types.Package
	Errs  []error // parse + type errors
}

func NewInfo() *types.Info {
	return &types.Info{
		Types:      map[ast.Expr]types.TypeAndValue{},
		Instances:  map[*ast.Ident]types.Instance{},
		Defs:       map[*ast.Ident]types.Object{},
		Uses:       map[*ast.Ident]types.Object{},
		Implicits:  map[ast.Node]types.Object{},
		Selections: map[*ast.SelectorExpr]*types.Selection{},
		Scopes:     map[ast.Node]*types.Scope{},
	}
}

var (
	workDir  string
	workOnce sync.Once
)

// WorkDir is the per-process scratch directory (outside /repo and /verif); remove with Cleanup.
func WorkDir() string {
	workOnce.Do(func() {
		base := os.Getenv("VERIF_WORK")
		if base == "" {
			base = "/dev/shm"
			if st, err := os.Stat(base); err != nil || !st.IsDir() {
				base = "/var/tmp"
			}
			base = filepath.Join(base, "verif-work")
		}
		os.MkdirAll(base, 0o755)
		sweepStale(base)
		d, err := os.MkdirTemp(base, "p")
		if err != nil {
			fmt.Fprintf(os.Stderr, "harness: %v\n", err)
			os.Exit(2)
		}
		os.WriteFile(filepath.Join(d, "owner.pid"), []byte(fmt.Sprint(os.Getpid())), 0o644)
		workDir = d
	})
	return workDir
}

// sweepStale removes scratch directories left behind by processes that were killed (their owner is gone).
func sweepStale(base string) {
	ents, err := os.ReadDir(base)
	if err != nil {
		return
	}
	for _, e := range ents {
		if !e.IsDir() || !strings.HasPrefix(e.Name(), "p") {
			continue
		}
		dir := filepath.Join(base, e.Name())
		st, err := os.Stat(dir)
		if err != nil {
			continue
		}
		age := time.Since(st.ModTime())
		data, err := os.ReadFile(filepath.Join(dir, "owner.pid"))
		if err != nil {
			if age > 6*time.Hour {
				os.RemoveAll(dir)
			}
			continue
		}
		if _, err := os.Stat("/proc/" + strings.TrimSpace(string(data))); err != nil && age > 10*time.Minute {
			os.RemoveAll(dir)
		}
	}
}

// Cleanup removes the scratch directory.
func Cleanup() {
	if workDir != "" {
		os.RemoveAll(workDir)
	}
}

// Release removes the on-disk copy of the package sources.
func (p *Pkg) Release() {
	if p.Dir != "" {
		os.RemoveAll(p.Dir)
	}
	for _, f := range p.Files {
		if tf := Fset.File(f.Pos()); tf != nil {
			Fset.RemoveFile(tf)
		}
	}
}

var loadSeq int
var loadSeqMu sync.Mutex

// Load parses and type-checks files as one package. Errors are collected, not fatal.
// Filenames are made unique inside the shared file set by a per-load directory prefix.
func Load(path string, files []File) *Pkg {
	loadSeqMu.Lock()
	loadSeq++
	seq := loadSeq
	loadSeqMu.Unlock()
	p := &Pkg{Path: path, Src: map[string]string{}, Info: NewInfo()}
	p.Dir = filepath.Join(WorkDir(), fmt.Sprint(seq))
	os.MkdirAll(p.Dir, 0o755)
	for _, f := range files {
		fname := filepath.Join(p.Dir, f.Name)
		// rule engines read the analysed file back from disk by its position file name
		if err := os.WriteFile(fname, []byte(f.Src), 0o644); err != nil {
			fmt.Fprintf(os.Stderr, "harness: %v\n", err)
			os.Exit(2)
		}
		af, err := parser.ParseFile(Fset, fname, f.Src, parser.ParseComments)
		if err != nil {
			p.Errs = append(p.Errs, err)
			if af == nil {
				continue
			}
		}
		p.Files = append(p.Files, af)
		p.Names = append(p.Names, f.Name)
		p.Src[f.Name] = f.Src
	}
	conf := types.Config{Importer: U, Sizes: Sizes, Error: func(err error) { p.Errs = append(p.Errs, err) }}
	p.Types, _ = conf.Check(path, Fset, p.Files, p.Info)
	return p
}

// Precheck reports whether files parse and type-check, using a throw-away file set (so rejected
// candidates leave no trace in the shared one).
func Precheck(path string, files []File) bool {
	fset := token.NewFileSet()
	var afs []*ast.File
	for _, f := range files {
		af, err := parser.ParseFile(fset, f.Name, f.Src, parser.SkipObjectResolution)
		if err != nil {
			return false
		}
		afs = append(afs, af)
	}
	ok := true
	conf := types.Config{Importer: U, Sizes: Sizes, Error: func(err error) { ok = false }}
	conf.Check(path, fset, afs, nil)
	return ok
}

// LoadOne loads a single-file package.
func LoadOne(src string) *Pkg { return Load("vpkg", []File{{"f.go", src}}) }

// ---------------------------------------------------------------------------------------------

// Set is a long-lived checker set sharing one Context, built like cmd/go-critic does.
type Set struct {
	Ctx      *linter.Context
	Checkers []*linter.Checker
}

// Infos returns the registered infos (fresh copies) filtered by names (nil = all).
func Infos(names []string) []*linter.CheckerInfo {
	Init()
	all := linter.GetCheckersInfo()
	if names == nil {
		return all
	}
	want := map[string]bool{}
	for _, n := range names {
		want[n] = true
	}
	var out []*linter.CheckerInfo
	for _, in := range all {
		if want[in.Name] {
			out = append(out, in)
		}
	}
	return out
}

// NewSet constructs checkers for infos with the given Go version ("" = newest).
func NewSet(infos []*linter.CheckerInfo, goVersion string) (*Set, error) {
	Init()
	ctx := linter.NewContext(Fset, Sizes)
	ctx.SetGoVersion(goVersion)
	s := &Set{Ctx: ctx}
	for _, info := range infos {
		c, err := linter.NewChecker(ctx, info)
		if err != nil {
			return nil, fmt.Errorf("%s: %w", info.Name, err)
		}
		s.Checkers = append(s.Checkers, c)
	}
	return s, nil
}

type Diag struct {
	Checker string
	Pos     token.Pos
	File    string
	Line    int
	Col     int
	Offset  int
	Text    string
	HasFix  bool
	From    int // offsets, -1 if invalid
	To      int
	FromPos token.Pos
	ToPos   token.Pos
	Repl    string
	// position facts for C07
	PosValid    bool
	InFile      bool // Pos lies in the analysed file
	FixInFile   bool // fix range valid, non-inverted and inside the analysed file
	Filename    string
	VisitedFile string
}

func (d Diag) String() string {
	s := fmt.Sprintf("%s:%d:%d: %s: %s", d.File, d.Line, d.Col, d.Checker, d.Text)
	if d.HasFix {
		s += fmt.Sprintf(" [fix %d-%d %q]", d.From, d.To, d.Repl)
	}
	return s
}

type Crash struct {
	Checker string
	Value   string
	Stack   string
	Frame   string // top-most go-critic frame
	Hang    bool
}

func mkDiag(name string, w linter.Warning, f *ast.File) Diag {
	pos := Fset.PositionFor(w.Pos, false)
	d := Diag{Checker: name, Pos: w.Pos, File: filepath.Base(pos.Filename), Line: pos.Line, Col: pos.Column, Offset: pos.Offset, Text: w.Text, From: -1, To: -1}
	d.PosValid = w.Pos.IsValid()
	d.Filename = pos.Filename
	tf := Fset.File(f.Package)
	if tf != nil {
		d.VisitedFile = tf.Name()
		d.InFile = d.PosValid && Fset.File(w.Pos) == tf
	}
	if w.HasQuickFix() {
		d.HasFix = true
		d.FixInFile = w.Suggestion.From.IsValid() && w.Suggestion.To.IsValid() && w.Suggestion.From <= w.Suggestion.To &&
			tf != nil && Fset.File(w.Suggestion.From) == tf && Fset.File(w.Suggestion.To) == tf
		d.FromPos, d.ToPos = w.Suggestion.From, w.Suggestion.To
		if w.Suggestion.From.IsValid() {
			d.From = Fset.PositionFor(w.Suggestion.From, false).Offset
		}
		if w.Suggestion.To.IsValid() {
			d.To = Fset.PositionFor(w.Suggestion.To, false).Offset
		}
		d.Repl = string(w.Suggestion.Replacement)
	}
	return d
}

// TopFrame extracts the innermost go-critic function from a stack trace.
func TopFrame(stack string) string {
	lines := strings.Split(stack, "\n")
	seenPanic := false
	for _, l := range lines {
		if strings.HasPrefix(l, "panic(") {
			seenPanic = true
			continue
		}
		if !seenPanic || strings.HasPrefix(l, "\t") {
			continue
		}
		if strings.Contains(l, "go-critic/") || strings.Contains(l, "go-toolsmith") || strings.Contains(l, "go-ruleguard") {
			if i := strings.LastIndex(l, "("); i > 0 {
				l = l[:i]
			}
			if i := strings.LastIndex(l, "/"); i >= 0 {
				l = l[i+1:]
			}
			return l
		}
	}
	return "?"
}

// CheckOne runs one checker on one file under recover.
func CheckOne(c *linter.Checker, f *ast.File) (diags []Diag, crash *Crash) {
	defer func() {
		if r := recover(); r != nil {
			st := string(debug.Stack())
			crash = &Crash{Checker: c.Info.Name, Value: fmt.Sprint(r), Stack: st, Frame: TopFrame(st)}
		}
	}()
	ws := c.Check(f)
	for _, w := range ws {
		diags = append(diags, mkDiag(c.Info.Name, w, f))
	}
	return diags, nil
}

// HangTimeout is the watchdog for a single file visit of a whole set.
var HangTimeout = 60 * time.Second

// Visit runs every checker of the set over one file of pkg the way checkPackage does.
// setPkg says whether SetPackageInfo must be called first.
func (s *Set) Visit(p *Pkg, fileIdx int, setPkg bool) (diags []Diag, crashes []*Crash) {
	if setPkg {
		s.Ctx.SetPackageInfo(p.Info, p.Types)
	}
	f := p.Files[fileIdx]
	func() {
		defer func() {
			if r := recover(); r != nil {
				st := string(debug.Stack())
				crashes = append(crashes, &Crash{Checker: "SetFileInfo", Value: fmt.Sprint(r), Stack: st, Frame: TopFrame(st)})
			}
		}()
		s.Ctx.SetFileInfo(p.Names[fileIdx], f)
	}()
	if len(crashes) > 0 {
		return
	}
	for _, c := range s.Checkers {
		d, cr := CheckOne(c, f)
		diags = append(diags, d...)
		if cr != nil {
			crashes = append(crashes, cr)
		}
	}
	return
}

// VisitAll visits every file of the package.
func (s *Set) VisitAll(p *Pkg) (diags []Diag, crashes []*Crash) {
	for i := range p.Files {
		d, c := s.Visit(p, i, i == 0)
		diags = append(diags, d...)
		crashes = append(crashes, c...)
	}
	return
}

// VisitWatchdog is Visit with a hang watchdog. If the visit does not return in time the goroutine
// is abandoned and hang=true is returned: the caller must discard the set.
func (s *Set) VisitAllWatchdog(p *Pkg) (diags []Diag, crashes []*Crash, hang bool) {
	type res struct {
		d []Diag
		c []*Crash
	}
	ch := make(chan res, 1)
	go func() {
		d, c := s.VisitAll(p)
		ch <- res{d, c}
	}()
	select {
	case r := <-ch:
		return r.d, r.c, false
	case <-time.After(HangTimeout):
		return nil, nil, true
	}
}

func DiagStrings(ds []Diag) []string {
	out := make([]string, len(ds))
	for i, d := range ds {
		out[i] = d.String()
	}
	return out
}

func SortedDiagStrings(ds []Diag) []string {
	out := DiagStrings(ds)
	sort.Strings(out)
	return out
}

// ---------------------------------------------------------------------------------------------
// testdata loading (replicates linttest)

type TestPkg struct {
	Checker string
	*Pkg
}

// stripDirectives mirrors linttest.stripDirectives.
func stripDirectives(f *ast.File) {
	for _, cg := range f.Comments {
		for _, c := range cg.List {
			if strings.HasPrefix(c.Text, "/// ") {
				c.Text = "//"
			}
		}
	}
}

// TestdataFiles returns the source files of checkers/testdata/<name>, grouped by package clause
// (pkg and pkg_test), honouring build constraints the way go list does.
func TestdataFiles(name string) (map[string][]File, error) {
	dir := filepath.Join(RepoDir, "checkers", "testdata", name)
	ents, err := os.ReadDir(dir)
	if err != nil {
		return nil, err
	}
	groups := map[string][]File{}
	for _, e := range ents {
		if e.IsDir() || !strings.HasSuffix(e.Name(), ".go") {
			continue
		}
		ok, err := build.Default.MatchFile(dir, e.Name())
		if err != nil || !ok {
			continue
		}
		data, err := os.ReadFile(filepath.Join(dir, e.Name()))
		if err != nil {
			return nil, err
		}
		pf, err := parser.ParseFile(token.NewFileSet(), e.Name(), data, parser.PackageClauseOnly)
		if err != nil {
			// keep it; Load will report
			groups["?"] = append(groups["?"], File{e.Name(), string(data)})
			continue
		}
		groups[pf.Name.Name] = append(groups[pf.Name.Name], File{e.Name(), string(data)})
	}
	return groups, nil
}

// LoadTestdata loads checkers/testdata/<name> as linttest would (one Pkg per package clause).
func LoadTestdata(name string) ([]*Pkg, error) {
	groups, err := TestdataFiles(name)
	if err != nil {
		return nil, err
	}
	var keys []string
	for k := range groups {
		keys = append(keys, k)
	}
	sort.Strings(keys)
	var out []*Pkg
	for _, k := range keys {
		p := Load("github.com/go-critic/go-critic/checkers/testdata/"+name, groups[k])
		for _, f := range p.Files {
			stripDirectives(f)
		}
		out = append(out, p)
	}
	return out, nil
}

// TestdataNames lists checker testdata directories.
func TestdataNames() []string {
	ents, _ := os.ReadDir(filepath.Join(RepoDir, "checkers", "testdata"))
	var out []string
	for _, e := range ents {
		if e.IsDir() && !strings.HasPrefix(e.Name(), "_") {
			out = append(out, e.Name())
		}
	}
	return out
}

// Expectations parses the /*! text */ directives of a testdata file: line -> texts.
func Expectations(src string) map[int][]string {
	ws := map[int][]string{}
	var pending []string
	lines := strings.Split(src, "\n")
	// bufio.Scanner drops a trailing empty line; emulate
	if len(lines) > 0 && lines[len(lines)-1] == "" {
		lines = lines[:len(lines)-1]
	}
	for i, l := range lines {
		t := strings.TrimLeft(l, " \t\r\n\f\v")
		if strings.HasPrefix(t, "/*! ") {
			if j := strings.LastIndex(t, " */"); j >= 4-1 {
				// regexp `^\s*/\*! (.*) \*/` is greedy: last " */"
				if j >= 3 {
					pending = append(pending, t[4:j])
					continue
				}
			}
		}
		if len(pending) != 0 {
			ws[i+1] = pending
			pending = nil
		}
	}
	return ws
}

// TestParams are the parameter overrides of checkers_test.go.
var TestParams = map[string]map[string]interface{}{
	"captLocal":        {"paramsOnly": false},
	"commentedOutCode": {"minLength": 9},
}

// ApplyParams sets parameter overrides on an info list.
func ApplyParams(infos []*linter.CheckerInfo, params map[string]map[string]interface{}) {
	for _, info := range infos {
		for k, v := range params[info.Name] {
			if p, ok := info.Params[k]; ok {
				p.Value = v
			}
		}
	}
}

// ---------------------------------------------------------------------------------------------
// real binaries

var (
	binMu    sync.Mutex
	binCache = map[string]string{}
)

// GoEnv is the environment for go tool invocations.
func GoEnv() []string {
	return append(os.Environ(), "GOFLAGS=-mod=mod", "GOPROXY=off", "GOSUMDB=off", "GOTOOLCHAIN=local")
}

// BuildBin builds a main package of the repository (e.g. "./cmd/go-critic") from the current
// tree into the scratch directory and returns the binary path. extra are extra build flags.
func BuildBin(pkg string, extra ...string) (string, error) {
	binMu.Lock()
	defer binMu.Unlock()
	key := pkg + "|" + strings.Join(extra, " ")
	if p, ok := binCache[key]; ok {
		return p, nil
	}
	out := filepath.Join(WorkDir(), "bin", fmt.Sprintf("%d-%s", len(binCache), filepath.Base(pkg)))
	os.MkdirAll(filepath.Dir(out), 0o755)
	args := append([]string{"build", "-o", out}, extra...)
	args = append(args, pkg)
	cmd := exec.Command("go", args...)
	cmd.Dir = RepoDir
	cmd.Env = GoEnv()
	b, err := cmd.CombinedOutput()
	if err != nil {
		return "", fmt.Errorf("go build %s: %v\n%s", pkg, err, b)
	}
	binCache[key] = out
	return out, nil
}

// RunResult is the outcome of a child process.
type RunResult struct {
	Stdout, Stderr string
	Exit           int
	TimedOut       bool
}

// RunCmd runs a child in its own process group under a hard kill deadline.
// cappedBuffer keeps the first max bytes written to it and discards the rest.
type cappedBuffer struct {
	mu  sync.Mutex
	buf bytes.Buffer
	max int
}

func (c *cappedBuffer) Write(p []byte) (int, error) {
	c.mu.Lock()
	defer c.mu.Unlock()
	if room := c.max - c.buf.Len(); room > 0 {
		if len(p) <= room {
			c.buf.Write(p)
		} else {
			c.buf.Write(p[:room])
			c.buf.WriteString("\n[output truncated by the harness]\n")
		}
	}
	return len(p), nil
}

func (c *cappedBuffer) String() string {
	c.mu.Lock()
	defer c.mu.Unlock()
	return c.buf.String()
}

func RunCmd(dir string, env []string, timeout time.Duration, name string, args ...string) RunResult {
	cmd := exec.Command(name, args...)
	cmd.Dir = dir
	if env != nil {
		cmd.Env = env
	}
	// captured output is capped (a child that reports thousands of data races or panics must not exhaust memory)
	so, se := &cappedBuffer{max: 48 << 20}, &cappedBuffer{max: 48 << 20}
	cmd.Stdout, cmd.Stderr = so, se
	setpgid(cmd)
	if err := cmd.Start(); err != nil {
		return RunResult{Stderr: err.Error(), Exit: -1}
	}
	done := make(chan error, 1)
	go func() { done <- cmd.Wait() }()
	var res RunResult
	select {
	case err := <-done:
		if err != nil {
			if ee, ok := err.(*exec.ExitError); ok {
				res.Exit = ee.ExitCode()
			} else {
				res.Exit = -1
			}
		}
	case <-time.After(timeout):
		killpg(cmd)
		<-done
		res.TimedOut = true
		res.Exit = -2
	}
	res.Stdout, res.Stderr = so.String(), se.String()
	return res
}

// Package fp computes deep, identity-sensitive fingerprints of syntax trees, type information and
// the shared linter context by reflection, so that any write to them is detected.
package fp

import (
	"fmt"
	"go/ast"
	"go/constant"
	"go/token"
	"go/types"
	"hash/fnv"
	"reflect"
	"sort"
	"unsafe"

	"github.com/go-critic/go-critic/linter"
)

type hasher struct {
	h    uint64
	seen map[uintptr]bool
	// trace, when non-nil, records path -> hash for diffing
	trace map[string]uint64
}

const prime = 1099511628211

func (h *hasher) mix(v uint64) {
	h.h ^= v
	h.h *= prime
}

func (h *hasher) str(s string) {
	f := fnv.New64a()
	f.Write([]byte(s))
	h.mix(f.Sum64())
	h.mix(uint64(len(s)))
}

var (
	typObject  = reflect.TypeOf((*ast.Object)(nil))
	typScope   = reflect.TypeOf((*ast.Scope)(nil))
	typTypesTy = reflect.TypeOf((*types.Type)(nil)).Elem()
	typTypesOb = reflect.TypeOf((*types.Object)(nil)).Elem()
	typConst   = reflect.TypeOf((*constant.Value)(nil)).Elem()
)

// walk hashes v: every field of every reachable node, pointer identities included.
func (h *hasher) walk(v reflect.Value, path string) {
	if !v.IsValid() {
		h.mix(0xdead)
		return
	}
	switch v.Kind() {
	case reflect.Ptr:
		if v.IsNil() {
			h.mix(1)
			return
		}
		p := v.Pointer()
		h.mix(uint64(p)) // identity: a node replaced by a copy is a change
		if h.seen[p] {
			return
		}
		h.seen[p] = true
		h.walk(v.Elem(), path)
	case reflect.Interface:
		if v.IsNil() {
			h.mix(2)
			return
		}
		e := v.Elem()
		// go/types objects and types: identity only (their interiors are lazily completed by go/types itself)
		if e.Type().Implements(typTypesTy) || e.Type().Implements(typTypesOb) {
			if e.Kind() == reflect.Ptr {
				h.mix(uint64(e.Pointer()))
			} else {
				h.str(fmt.Sprint(e.Interface()))
			}
			return
		}
		if e.Type().Implements(typConst) {
			h.str(e.Interface().(constant.Value).ExactString())
			return
		}
		h.str(e.Type().String())
		h.walk(e, path)
	case reflect.Struct:
		for i := 0; i < v.NumField(); i++ {
			f := v.Field(i)
			if !f.CanInterface() {
				f = reflect.NewAt(f.Type(), unsafe.Pointer(f.UnsafeAddr())).Elem()
			}
			h.walk(f, path+"."+v.Type().Field(i).Name)
		}
	case reflect.Slice:
		if v.IsNil() {
			h.mix(3)
			return
		}
		h.mix(uint64(v.Len()))
		h.mix(uint64(v.Pointer())) // backing array identity
		for i := 0; i < v.Len(); i++ {
			h.walk(v.Index(i), path)
		}
	case reflect.Array:
		for i := 0; i < v.Len(); i++ {
			h.walk(v.Index(i), path)
		}
	case reflect.Map:
		if v.IsNil() {
			h.mix(4)
			return
		}
		h.mix(uint64(v.Len()))
		if v.Type().Key().Kind() == reflect.String {
			keys := v.MapKeys()
			sort.Slice(keys, func(i, j int) bool { return keys[i].String() < keys[j].String() })
			for _, k := range keys {
				h.str(k.String())
				h.walk(v.MapIndex(k), path)
			}
			return
		}
		// other key kinds: order independent sum of shallow entry identities
		var sum uint64
		it := v.MapRange()
		for it.Next() {
			sum += shallow(it.Key())*prime ^ shallow(it.Value())
		}
		h.mix(sum)
	case reflect.String:
		h.str(v.String())
	case reflect.Bool:
		if v.Bool() {
			h.mix(5)
		} else {
			h.mix(6)
		}
	case reflect.Int, reflect.Int8, reflect.Int16, reflect.Int32, reflect.Int64:
		h.mix(uint64(v.Int()))
	case reflect.Uint, reflect.Uint8, reflect.Uint16, reflect.Uint32, reflect.Uint64, reflect.Uintptr:
		h.mix(v.Uint())
	case reflect.Float32, reflect.Float64:
		h.str(fmt.Sprint(v.Float()))
	case reflect.Func, reflect.Chan, reflect.UnsafePointer:
		if v.IsNil() {
			h.mix(7)
		} else {
			h.mix(uint64(v.Pointer()))
		}
	default:
		h.str(fmt.Sprint(v.Kind()))
	}
}

func shallow(v reflect.Value) uint64 {
	switch v.Kind() {
	case reflect.Ptr, reflect.Map, reflect.Slice, reflect.Func, reflect.Chan, reflect.UnsafePointer:
		return uint64(v.Pointer())
	case reflect.Interface:
		if v.IsNil() {
			return 2
		}
		return shallow(v.Elem())
	}
	hh := newHasher()
	hh.str(fmt.Sprint(v.Interface()))
	return hh.h
}

func newHasher() *hasher { return &hasher{h: 14695981039346656037, seen: map[uintptr]bool{}} }

// File fingerprints the whole *ast.File graph (nodes, positions, comments, Obj/Scope, Unresolved).
func File(f *ast.File) uint64 {
	h := newHasher()
	h.walk(reflect.ValueOf(f), "File")
	return h.h
}

// Info fingerprints a types.Info: for every map its length and the identity of key -> value pairs
// (TypeAndValue by mode/type identity/constant; Selection by kind/object identity/index path).
func Info(info *types.Info) uint64 {
	if info == nil {
		return 0
	}
	h := newHasher()
	h.mix(uint64(len(info.Types)))
	var s uint64
	for k, v := range info.Types {
		e := uint64(reflect.ValueOf(k).Pointer()) * prime
		if v.Type != nil {
			e ^= typeID(v.Type)
		}
		if v.Value != nil {
			hh := newHasher()
			hh.str(v.Value.ExactString())
			e = e*prime ^ hh.h
		}
		var flags uint64
		if v.IsValue() {
			flags |= 1
		}
		if v.IsType() {
			flags |= 2
		}
		if v.Addressable() {
			flags |= 4
		}
		if v.Assignable() {
			flags |= 8
		}
		if v.IsBuiltin() {
			flags |= 16
		}
		if v.IsVoid() {
			flags |= 32
		}
		if v.HasOk() {
			flags |= 64
		}
		if v.IsNil() {
			flags |= 128
		}
		e = e*prime ^ flags
		s += e
	}
	h.mix(s)
	objMap := func(n int, each func(yield func(k uintptr, o types.Object))) {
		h.mix(uint64(n))
		var s uint64
		each(func(k uintptr, o types.Object) {
			e := uint64(k) * prime
			if o != nil {
				e ^= uint64(reflect.ValueOf(o).Pointer())
			}
			s += e
		})
		h.mix(s)
	}
	objMap(len(info.Defs), func(y func(uintptr, types.Object)) {
		for k, v := range info.Defs {
			y(reflect.ValueOf(k).Pointer(), v)
		}
	})
	objMap(len(info.Uses), func(y func(uintptr, types.Object)) {
		for k, v := range info.Uses {
			y(reflect.ValueOf(k).Pointer(), v)
		}
	})
	objMap(len(info.Implicits), func(y func(uintptr, types.Object)) {
		for k, v := range info.Implicits {
			y(reflect.ValueOf(k).Pointer(), v)
		}
	})
	h.mix(uint64(len(info.Selections)))
	s = 0
	for k, v := range info.Selections {
		e := uint64(reflect.ValueOf(k).Pointer()) * prime
		e ^= uint64(reflect.ValueOf(v).Pointer())
		e = e*prime ^ uint64(v.Kind())
		if v.Obj() != nil {
			e = e*prime ^ uint64(reflect.ValueOf(v.Obj()).Pointer())
		}
		for _, i := range v.Index() {
			e = e*prime ^ uint64(i+1)
		}
		s += e
	}
	h.mix(s)
	h.mix(uint64(len(info.Scopes)))
	s = 0
	for k, v := range info.Scopes {
		s += uint64(reflect.ValueOf(k).Pointer())*prime ^ uint64(reflect.ValueOf(v).Pointer())
	}
	h.mix(s)
	h.mix(uint64(len(info.Instances)))
	s = 0
	for k, v := range info.Instances {
		e := uint64(reflect.ValueOf(k).Pointer()) * prime
		if v.Type != nil {
			e ^= typeID(v.Type)
		}
		if v.TypeArgs != nil {
			e = e*prime ^ uint64(v.TypeArgs.Len())
		}
		s += e
	}
	h.mix(s)
	h.mix(uint64(len(info.InitOrder)))
	h.mix(uint64(len(info.FileVersions)))
	return h.h
}

func typeID(t types.Type) uint64 {
	v := reflect.ValueOf(t)
	if v.Kind() == reflect.Ptr {
		return uint64(v.Pointer())
	}
	hh := newHasher()
	hh.str(t.String())
	return hh.h
}

// Context fingerprints every field of the shared linter.Context (maps by content and identity).
func Context(c *linter.Context, fset *token.FileSet) uint64 {
	h := newHasher()
	h.mix(uint64(reflect.ValueOf(c.TypesInfo).Pointer()))
	h.mix(Info(c.TypesInfo))
	if c.SizesInfo != nil {
		h.str(fmt.Sprintf("%T%v", c.SizesInfo, c.SizesInfo))
	}
	h.mix(uint64(c.GoVersion.Major)<<16 | uint64(c.GoVersion.Minor))
	h.mix(uint64(reflect.ValueOf(c.FileSet).Pointer()))
	// FileSet.Base() is deliberately not part of the fingerprint: harness workers share one file set and
	// add files to it concurrently, so it moves for reasons that have nothing to do with the checker.
	if c.Pkg != nil {
		h.mix(uint64(reflect.ValueOf(c.Pkg).Pointer()))
		h.str(c.Pkg.Path() + "|" + c.Pkg.Name())
		h.mix(uint64(len(c.Pkg.Imports())))
		h.mix(uint64(c.Pkg.Scope().Len()))
	}
	h.str(c.Filename)
	if c.Require.PkgObjects {
		h.mix(11)
	}
	if c.Require.PkgRenames {
		h.mix(13)
	}
	h.mix(uint64(reflect.ValueOf(c.PkgObjects).Pointer()))
	h.mix(uint64(len(c.PkgObjects)))
	var s uint64
	for k, v := range c.PkgObjects {
		hh := newHasher()
		hh.mix(uint64(reflect.ValueOf(k).Pointer()))
		hh.str(v)
		s += hh.h
	}
	h.mix(s)
	h.mix(uint64(reflect.ValueOf(c.PkgRenames).Pointer()))
	var keys []string
	for k, v := range c.PkgRenames {
		keys = append(keys, k+"="+v)
	}
	sort.Strings(keys)
	for _, k := range keys {
		h.str(k)
	}
	// any further field (e.g. one added later, exported or not) is walked by reflection, so that state hidden
	// in the shared context is noticed as well
	known := map[string]bool{"TypesInfo": true, "SizesInfo": true, "GoVersion": true, "FileSet": true, "Pkg": true, "Filename": true, "Require": true, "PkgObjects": true, "PkgRenames": true}
	rv := reflect.ValueOf(c).Elem()
	for i := 0; i < rv.NumField(); i++ {
		name := rv.Type().Field(i).Name
		if known[name] {
			continue
		}
		f := rv.Field(i)
		if !f.CanInterface() {
			f = reflect.NewAt(f.Type(), unsafe.Pointer(f.UnsafeAddr())).Elem()
		}
		h.str(name)
		h.walk(f, "Context."+name)
	}
	return h.h
}

// Registry fingerprints the registered checker metadata and parameter values.
func Registry() uint64 {
	h := newHasher()
	for _, info := range linter.GetCheckersInfo() {
		h.str(info.Name)
		h.mix(uint64(len(info.Tags)))
		for _, t := range info.Tags {
			h.str(t)
		}
		h.str(info.Summary)
		h.str(info.Details)
		h.str(info.Before)
		h.str(info.After)
		h.str(info.Note)
		var keys []string
		for k := range info.Params {
			keys = append(keys, k)
		}
		sort.Strings(keys)
		for _, k := range keys {
			h.str(k)
			h.str(fmt.Sprintf("%T=%v|%s", info.Params[k].Value, info.Params[k].Value, info.Params[k].Usage))
			h.mix(uint64(reflect.ValueOf(info.Params[k]).Pointer()))
		}
		if info.Collection != nil {
			h.str(info.Collection.URL)
		}
	}
	return h.h
}

// Package gorun compiles and runs generated Go programs with the real toolchain: many small cases are
// batched into one main package; each case prints observation lines that the caller compares with
// what a diagnostic claimed or with the transcript of a rewritten twin.
package gorun

import (
	"fmt"
	"os"
	"path/filepath"
	"sort"
	"strings"
	"time"

	"verif/mc/internal/harness"
)

// Case is one executable case: Decls are package-level declarations (unique names), Body the
// statements of its driver function. Both may call the runtime helpers below.
type Case struct {
	ID    string
	Decls string
	Body  string
}

// Runtime is prepended to every program.
const Runtime = `
var curCase string

func obs(tag string, v interface{}) { fmt.Printf("OBS\t%s\t%s\t%#v\n", curCase, tag, v) }

// try runs f and reports whether it panicked.
func try(f func()) (panicked bool) {
	defer func() {
		if r := recover(); r != nil {
			panicked = true
		}
	}()
	f()
	return false
}

func isNil(v interface{}) bool {
	if v == nil {
		return true
	}
	rv := reflect.ValueOf(v)
	switch rv.Kind() {
	case reflect.Ptr, reflect.Map, reflect.Slice, reflect.Func, reflect.Chan, reflect.Interface:
		return rv.IsNil()
	}
	return false
}

var trace []string

func tr(s string) { trace = append(trace, s) }

func flushTrace() string { s := strings.Join(trace, ","); trace = trace[:0]; return s }

var _ = math.NaN
var _ = reflect.TypeOf
var _ = strings.Join
var _ = os.Exit
`

// Header is the file header every generated program (and every pre-check) uses.
const Header = "package main\n\nimport (\n\t\"fmt\"\n\t\"math\"\n\t\"os\"\n\t\"reflect\"\n\t\"strings\"\n)\n"

// Source renders one program for the given cases.
func Source(cases []Case, extraImports string) string {
	var b strings.Builder
	b.WriteString(Header)
	b.WriteString(extraImports)
	b.WriteString(Runtime)
	for i, c := range cases {
		b.WriteString("\n// case " + c.ID + "\n")
		b.WriteString(c.Decls)
		fmt.Fprintf(&b, "\nfunc runCase%d() {\n\tcurCase = %q\n\tdefer func() {\n\t\tif r := recover(); r != nil {\n\t\t\tobs(\"DRIVER-PANIC\", fmt.Sprint(r))\n\t\t}\n\t}()\n%s\n}\n", i, c.ID, c.Body)
	}
	b.WriteString("\nfunc main() {\n")
	for i := range cases {
		fmt.Fprintf(&b, "\trunCase%d()\n", i)
	}
	b.WriteString("\tfmt.Println(\"DONE\")\n}\n")
	return b.String()
}

// Compiles reports whether a single case type-checks (so that one bad case cannot sink a batch).
func Compiles(c Case, extraImports string) bool {
	src := Source([]Case{c}, extraImports)
	return harness.Precheck("main", []harness.File{{Name: "main.go", Src: src}})
}

// Run compiles and runs the cases (in batches) and returns observations per case: tag -> values in order.
func Run(cases []Case, extraImports string, batch int) (map[string]map[string][]string, error) {
	out := map[string]map[string][]string{}
	dir := filepath.Join(harness.WorkDir(), fmt.Sprintf("gorun-%d", time.Now().UnixNano()))
	defer os.RemoveAll(dir)
	for lo := 0; lo < len(cases); lo += batch {
		hi := lo + batch
		if hi > len(cases) {
			hi = len(cases)
		}
		bd := filepath.Join(dir, fmt.Sprint(lo))
		os.MkdirAll(bd, 0o755)
		os.WriteFile(filepath.Join(bd, "go.mod"), []byte("module gorun\n\ngo 1.21\n"), 0o644)
		os.WriteFile(filepath.Join(bd, "main.go"), []byte(Source(cases[lo:hi], extraImports)), 0o644)
		res := harness.RunCmd(bd, harness.GoEnv(), 10*time.Minute, "go", "run", ".")
		if !strings.Contains(res.Stdout, "\nDONE") && !strings.HasPrefix(res.Stdout, "DONE") {
			return nil, fmt.Errorf("generated program failed (exit %d): %s", res.Exit, tail(res.Stderr, 3000))
		}
		for _, l := range strings.Split(res.Stdout, "\n") {
			parts := strings.SplitN(l, "\t", 4)
			if len(parts) == 4 && parts[0] == "OBS" {
				if out[parts[1]] == nil {
					out[parts[1]] = map[string][]string{}
				}
				out[parts[1]][parts[2]] = append(out[parts[1]][parts[2]], parts[3])
			}
		}
	}
	return out, nil
}

func tail(s string, n int) string {
	if len(s) > n {
		return s[len(s)-n:]
	}
	return s
}

// Tags returns the sorted tags of one case's observations.
func Tags(m map[string][]string) []string {
	var t []string
	for k := range m {
		t = append(t, k)
	}
	sort.Strings(t)
	return t
}

package verifmcrt

import "reflect"

func posViaReflect(v interface{}) int64 {
	rv := reflect.ValueOf(v)
	if !rv.IsValid() {
		return 0
	}
	m := rv.MethodByName("Pos")
	if !m.IsValid() || m.Type().NumIn() != 0 || m.Type().NumOut() != 1 {
		return 0
	}
	out := m.Call(nil)[0]
	if out.CanInt() {
		return out.Int()
	}
	return 0
}

package verifmcrt

import (
	"fmt"
	"runtime"
	"sync"
	"time"
)

// A cooperative scheduler: exactly one managed goroutine runs at a time; before every synchronisation
// operation (go, channel send/receive, WaitGroup, Mutex, Yield) the running goroutine asks the
// explorer which enabled goroutine continues. Executions are described by the list of choices.

type threadState int

const (
	tsRunnable threadState = iota
	tsBlocked
	tsDone
)

type thread struct {
	id      int
	wake    chan struct{}
	state   threadState
	blocked func() bool // still blocked?
	what    string
}

// Execution is one run under a schedule.
type Execution struct {
	mu       sync.Mutex
	threads  []*thread
	cur      int
	prefix   []int // choices to replay
	Choices  []int // choices actually taken
	Points   []Point
	done     chan struct{}
	Deadlock bool
	Died     string // an unrecovered panic in a managed goroutine: what the runtime would print
	finished bool
	MaxSteps int
	steps    int
	Diverged string
	live     sync.WaitGroup // goroutines of this execution that have not fully unwound yet
}

// Point is one scheduling decision.
type Point struct {
	Enabled        []int // thread ids in canonical order: running thread first if enabled, then ascending
	RunningEnabled bool
	Chosen         int // index into Enabled
	What           string
}

var (
	curExec   *Execution
	curExecMu sync.Mutex
)

func exec() *Execution {
	curExecMu.Lock()
	defer curExecMu.Unlock()
	return curExec
}

// Run executes body as thread 0 under the scheduler, replaying prefix and then always taking
// choice 0 (keep running / lowest id). It returns when every thread finished, on deadlock, or when a
// managed goroutine died.
func Run(prefix []int, body func()) *Execution {
	e := &Execution{prefix: prefix, done: make(chan struct{}), MaxSteps: 100000}
	main := &thread{id: 0, wake: make(chan struct{}, 1)}
	e.threads = []*thread{main}
	curExecMu.Lock()
	curExec = e
	curExecMu.Unlock()
	e.live.Add(1)
	go func() {
		defer e.live.Done()
		defer e.threadExit(main)
		<-main.wake
		body()
	}()
	main.wake <- struct{}{}
	// a goroutine that blocks on a primitive the rewriter did not replace never reaches a scheduling point
	for waiting := true; waiting; {
		select {
		case <-e.done:
			waiting = false
		case <-time.After(15 * time.Second):
			e.mu.Lock()
			st := e.steps
			e.mu.Unlock()
			time.Sleep(2 * time.Second)
			e.mu.Lock()
			stuck := e.steps == st && !e.finished
			e.mu.Unlock()
			if stuck {
				e.mu.Lock()
				e.Diverged = "blocked outside the scheduler (a synchronisation primitive that was not rewritten)"
				e.mu.Unlock()
				e.finish()
				waiting = false
			}
		}
	}
	// let every goroutine of this execution unwind before the next execution starts
	unwound := make(chan struct{})
	go func() { e.live.Wait(); close(unwound) }()
	select {
	case <-unwound:
	case <-time.After(5 * time.Second):
		if e.Diverged == "" {
			e.Diverged = "goroutines of the execution did not unwind (blocked outside the scheduler)"
		}
	}
	curExecMu.Lock()
	curExec = nil
	curExecMu.Unlock()
	return e
}

func (e *Execution) threadExit(t *thread) {
	if r := recover(); r != nil {
		e.mu.Lock()
		if e.Died == "" {
			e.Died = fmt.Sprint(r)
		}
		e.mu.Unlock()
		e.finish()
		return
	}
	e.mu.Lock()
	t.state = tsDone
	e.mu.Unlock()
	e.schedule(t, "exit", true)
}

func (e *Execution) finish() {
	e.mu.Lock()
	if !e.finished {
		e.finished = true
		close(e.done)
		// wake every parked goroutine so that it unwinds (runtime.Goexit in schedule)
		for _, t := range e.threads {
			select {
			case t.wake <- struct{}{}:
			default:
			}
		}
	}
	e.mu.Unlock()
}

// schedule is called by the running thread t at a scheduling point.
func (e *Execution) schedule(t *thread, what string, exiting bool) {
	e.mu.Lock()
	if e.finished {
		e.mu.Unlock()
		if !exiting {
			runtime.Goexit() // execution over (another goroutine died): unwind quietly
		}
		return
	}
	e.steps++
	if e.steps > e.MaxSteps {
		e.Diverged = "step limit"
		e.mu.Unlock()
		e.finish()
		if !exiting {
			runtime.Goexit()
		}
		return
	}
	// enabled set
	var enabled []int
	runningEnabled := false
	if t.state == tsRunnable || (t.state == tsBlocked && !t.blocked()) {
		if t.state == tsBlocked {
			t.state = tsRunnable
		}
		runningEnabled = true
		enabled = append(enabled, t.id)
	}
	for _, o := range e.threads {
		if o == t {
			continue
		}
		if o.state == tsBlocked && !o.blocked() {
			o.state = tsRunnable
		}
		if o.state == tsRunnable {
			enabled = append(enabled, o.id)
		}
	}
	if len(enabled) == 0 {
		allDone := true
		for _, o := range e.threads {
			if o.state != tsDone {
				allDone = false
			}
		}
		if !allDone {
			e.Deadlock = true
		}
		e.mu.Unlock()
		e.finish()
		if !exiting {
			runtime.Goexit()
		}
		return
	}
	idx := 0
	n := len(e.Choices)
	if n < len(e.prefix) {
		idx = e.prefix[n]
		if idx < 0 || idx >= len(enabled) {
			e.Diverged = fmt.Sprintf("replay divergence at point %d: choice %d of %d enabled", n, idx, len(enabled))
			e.mu.Unlock()
			e.finish()
			if !exiting {
				runtime.Goexit()
			}
			return
		}
	}
	e.Choices = append(e.Choices, idx)
	e.Points = append(e.Points, Point{Enabled: enabled, RunningEnabled: runningEnabled, Chosen: idx, What: what})
	next := e.threads[enabled[idx]]
	e.cur = next.id
	e.mu.Unlock()
	if next == t {
		return
	}
	next.wake <- struct{}{}
	if exiting {
		return
	}
	<-t.wake
	e.mu.Lock()
	fin := e.finished
	e.mu.Unlock()
	if fin {
		runtime.Goexit()
	}
}

func (e *Execution) current() *thread {
	e.mu.Lock()
	defer e.mu.Unlock()
	return e.threads[e.cur]
}

// Yield is a plain scheduling point.
func Yield() {
	if e := exec(); e != nil {
		e.schedule(e.current(), "yield", false)
	}
}

// Go starts f as a managed goroutine (a real `go` when no execution is active).
func Go(f func()) {
	e := exec()
	if e == nil {
		go f()
		return
	}
	e.mu.Lock()
	t := &thread{id: len(e.threads), wake: make(chan struct{}, 1)}
	e.threads = append(e.threads, t)
	e.mu.Unlock()
	e.live.Add(1)
	go func() {
		defer e.live.Done()
		defer e.threadExit(t)
		<-t.wake
		e.mu.Lock()
		fin := e.finished
		e.mu.Unlock()
		if fin {
			return
		}
		f()
	}()
	e.schedule(e.current(), "go", false)
}

// block parks the running thread until cond() is false.
func (e *Execution) block(what string, stillBlocked func() bool) {
	t := e.current()
	e.mu.Lock()
	t.state = tsBlocked
	t.blocked = stillBlocked
	t.what = what
	e.mu.Unlock()
	e.schedule(t, what, false)
}

// Sema is a buffered chan struct{} used as a semaphore.
type Sema struct {
	mu  sync.Mutex
	cap int
	n   int
	ch  chan struct{}
}

// NewSema mirrors make(chan struct{}, n).
func NewSema(n int) *Sema { return &Sema{cap: n, ch: make(chan struct{}, n)} }

func (s *Sema) Send() {
	e := exec()
	if e == nil {
		s.ch <- struct{}{}
		return
	}
	e.schedule(e.current(), "send", false)
	for {
		s.mu.Lock()
		if s.n < s.cap {
			s.n++
			s.mu.Unlock()
			return
		}
		s.mu.Unlock()
		e.block("send(full)", func() bool { s.mu.Lock(); defer s.mu.Unlock(); return s.n >= s.cap })
	}
}

func (s *Sema) Recv() {
	e := exec()
	if e == nil {
		<-s.ch
		return
	}
	e.schedule(e.current(), "recv", false)
	for {
		s.mu.Lock()
		if s.n > 0 {
			s.n--
			s.mu.Unlock()
			return
		}
		s.mu.Unlock()
		e.block("recv(empty)", func() bool { s.mu.Lock(); defer s.mu.Unlock(); return s.n <= 0 })
	}
}

// Len reports the number of held slots (for invariants).
func (s *Sema) Len() int { s.mu.Lock(); defer s.mu.Unlock(); return s.n }

// WaitGroup mirrors sync.WaitGroup.
type WaitGroup struct {
	mu   sync.Mutex
	n    int
	real sync.WaitGroup
}

func (w *WaitGroup) Add(d int) {
	e := exec()
	if e == nil {
		w.real.Add(d)
		return
	}
	e.schedule(e.current(), "wg.Add", false)
	w.mu.Lock()
	w.n += d
	if w.n < 0 {
		w.mu.Unlock()
		panic("sync: negative WaitGroup counter")
	}
	w.mu.Unlock()
}

func (w *WaitGroup) Done() {
	e := exec()
	if e == nil {
		w.real.Done()
		return
	}
	e.schedule(e.current(), "wg.Done", false)
	w.mu.Lock()
	w.n--
	if w.n < 0 {
		w.mu.Unlock()
		panic("sync: negative WaitGroup counter")
	}
	w.mu.Unlock()
}

func (w *WaitGroup) Wait() {
	e := exec()
	if e == nil {
		w.real.Wait()
		return
	}
	e.schedule(e.current(), "wg.Wait", false)
	for {
		w.mu.Lock()
		if w.n == 0 {
			w.mu.Unlock()
			return
		}
		w.mu.Unlock()
		e.block("wg.Wait(pending)", func() bool { w.mu.Lock(); defer w.mu.Unlock(); return w.n != 0 })
	}
}

// Mutex mirrors sync.Mutex.
type Mutex struct {
	mu     sync.Mutex
	locked bool
	real   sync.Mutex
}

func (m *Mutex) Lock() {
	e := exec()
	if e == nil {
		m.real.Lock()
		return
	}
	e.schedule(e.current(), "mu.Lock", false)
	for {
		m.mu.Lock()
		if !m.locked {
			m.locked = true
			m.mu.Unlock()
			return
		}
		m.mu.Unlock()
		e.block("mu.Lock(held)", func() bool { m.mu.Lock(); defer m.mu.Unlock(); return m.locked })
	}
}

func (m *Mutex) Unlock() {
	e := exec()
	if e == nil {
		m.real.Unlock()
		return
	}
	m.mu.Lock()
	if !m.locked {
		m.mu.Unlock()
		panic("sync: unlock of unlocked mutex")
	}
	m.locked = false
	m.mu.Unlock()
	e.schedule(e.current(), "mu.Unlock", false)
}

// Explore runs body under every schedule with at most `bound` preemptions (bound < 0: unbounded) and
// calls visit for each complete execution. It returns the number of executions.
func Explore(bound int, body func(), visit func(*Execution)) int {
	return ExploreUntil(bound, body, visit, func() bool { return false })
}

// ExploreUntil is Explore with an abort condition checked before every execution.
func ExploreUntil(bound int, body func(), visit func(*Execution), stop func() bool) int {
	n := 0
	var rec func(prefix []int)
	rec = func(prefix []int) {
		if stop() {
			return
		}
		x := Run(prefix, body)
		n++
		visit(x)
		if x.Diverged != "" {
			return
		}
		// preemptions used before point i
		pre := make([]int, len(x.Points)+1)
		for i, p := range x.Points {
			pre[i+1] = pre[i]
			if p.RunningEnabled && p.Chosen != 0 {
				pre[i+1]++
			}
		}
		for i := len(prefix); i < len(x.Points); i++ {
			p := x.Points[i]
			for alt := 1; alt < len(p.Enabled); alt++ {
				cost := pre[i]
				if p.RunningEnabled {
					cost++
				}
				if bound >= 0 && cost > bound {
					continue
				}
				np := append(append([]int{}, x.Choices[:i]...), alt)
				rec(np)
			}
		}
	}
	rec(nil)
	return n
}

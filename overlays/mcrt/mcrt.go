// Package verifmcrt is the run-time of the build-time seams. It is mounted into the go-critic module as
// the virtual package github.com/go-critic/go-critic/verifmcrt through `go build -overlay`, so that both
// rewritten go-critic files and the harness can import it. Standard library only.
package verifmcrt

import (
	"fmt"
	"sort"
	"sync"
)

// MapHook, when set, is asked for the order in which the n keys of a map-range visit are delivered.
// It returns a permutation of 0..n-1 over the canonical key order (nil = canonical order).
var MapHook func(site, n int) []int

var mapMu sync.Mutex

// SetMapHook installs the hook (nil removes it).
func SetMapHook(h func(site, n int) []int) {
	mapMu.Lock()
	MapHook = h
	mapMu.Unlock()
}

// MapKeys returns the keys of m: first sorted canonically (so that the default execution is
// reproducible), then permuted as MapHook dictates.
func MapKeys[K comparable, V any](m map[K]V, site int) []K {
	keys := make([]K, 0, len(m))
	for k := range m {
		keys = append(keys, k)
	}
	sort.SliceStable(keys, func(i, j int) bool { return lessKey(keys[i], keys[j]) })
	mapMu.Lock()
	hook := MapHook
	mapMu.Unlock()
	if hook == nil {
		return keys
	}
	perm := hook(site, len(keys))
	if perm == nil {
		return keys
	}
	if len(perm) != len(keys) {
		panic(fmt.Sprintf("verifmcrt: permutation of length %d for %d keys at site %d", len(perm), len(keys), site))
	}
	out := make([]K, len(keys))
	for i, p := range perm {
		out[i] = keys[p]
	}
	return out
}

func lessKey(a, b interface{}) bool {
	switch x := a.(type) {
	case string:
		return x < b.(string)
	case int:
		return x < b.(int)
	case int64:
		return x < b.(int64)
	case bool:
		return !x && b.(bool)
	}
	// go/types objects and AST nodes: position, then printed form
	pa, pb := posViaReflect(a), posViaReflect(b)
	if pa != pb {
		return pa < pb
	}
	return fmt.Sprint(a) < fmt.Sprint(b)
}

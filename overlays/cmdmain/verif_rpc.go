//go:build verif

// Added to package main of cmd/go-critic and cmd/gocritic at build time (`go build -overlay`).
// With VERIF_RPC set the binary serves requests on stdin instead of running main(): each request
// drives the real, unexported steps of runCheck (bindCheckerParams, bindDefaultEnabledList,
// parseArgs, assignCheckerParams, initCheckers, shortenLocation, isGenerated) so that tens of
// thousands of configurations run in one process.
package main

import (
	"bufio"
	"bytes"
	"encoding/json"
	"flag"
	"fmt"
	"go/ast"
	"go/importer"
	"go/parser"
	"go/token"
	"go/types"
	"io"
	"log"
	"os"
	"runtime"
	"strings"

	"github.com/go-critic/go-critic/checkers"
	"github.com/go-critic/go-critic/linter"
)

type verifReq struct {
	Op   string   `json:"op"`
	Args []string `json:"args,omitempty"`
	Run  bool     `json:"run,omitempty"`
	// shorten
	Loc, WorkDir, Gopath, Goroot string
	// generated
	Src string
	// shortenSweep
	Segments  []string
	DirDepth  int
	FileDepth int
}

type verifResp struct {
	Selected    []string            `json:"selected"`
	Constructed []string            `json:"constructed"`
	Default     []string            `json:"default"`
	Err         string              `json:"err,omitempty"`
	Panic       string              `json:"panic,omitempty"`
	Log         string              `json:"log,omitempty"`
	Out         string              `json:"out,omitempty"`
	Bool        bool                `json:"bool,omitempty"`
	Registry    map[string][]string `json:"registry,omitempty"`
	Sweep       *verifSweepResult   `json:"sweep,omitempty"`
	Sched       interface{}         `json:"sched,omitempty"`
	Lines       []string            `json:"lines,omitempty"`
}

// verifSchedHook is set by verif_sched.go in scheduler builds.
var verifSchedHook func(*verifReq) interface{}

func init() {
	if os.Getenv("VERIF_RPC") == "" {
		return
	}
	if os.Getenv("VERIF_RPC_NOEMBED") == "" {
		if err := checkers.InitEmbeddedRules(); err != nil {
			panic(err)
		}
	}
	log.SetFlags(0)
	in := bufio.NewReaderSize(os.Stdin, 1<<20)
	out := bufio.NewWriter(os.Stdout)
	enc := json.NewEncoder(out)
	for {
		line, err := in.ReadBytes('\n')
		if len(line) > 0 {
			var req verifReq
			if jerr := json.Unmarshal(line, &req); jerr != nil {
				enc.Encode(verifResp{Err: "bad request: " + jerr.Error()})
			} else {
				enc.Encode(verifServe(&req))
			}
			out.Flush()
		}
		if err == io.EOF {
			break
		}
		if err != nil {
			break
		}
	}
	os.Exit(0)
}

func verifServe(req *verifReq) (resp verifResp) {
	var logbuf bytes.Buffer
	log.SetOutput(&logbuf)
	defer func() {
		if r := recover(); r != nil {
			resp.Panic = fmt.Sprint(r)
		}
		resp.Log = logbuf.String()
		log.SetOutput(os.Stderr)
	}()
	switch req.Op {
	case "registry":
		resp.Registry = map[string][]string{}
		for _, info := range linter.GetCheckersInfo() {
			resp.Registry[info.Name] = append([]string{}, info.Tags...)
		}
	case "init":
		checkers.VerifProbeConstructed()
		var p program
		p.flagSet = flag.NewFlagSet("go-critic", flag.ContinueOnError)
		p.flagSet.SetOutput(&logbuf)
		p.infoList = linter.GetCheckersInfo()
		steps := []func() error{
			p.bindCheckerParams,
			p.bindDefaultEnabledList,
			func() error { return p.parseArgs(req.Args) },
			p.assignCheckerParams,
			func() error {
				// loadProgram without loading packages
				p.fset = token.NewFileSet()
				p.ctx = linter.NewContext(p.fset, types.SizesFor("gc", runtime.GOARCH))
				p.ctx.SetGoVersion(p.goVersion)
				return nil
			},
			p.initCheckers,
		}
		for _, st := range steps {
			if err := st(); err != nil {
				resp.Err = err.Error()
				break
			}
		}
		resp.Default = p.filters.defaultCheckers
		for _, c := range p.checkers {
			resp.Selected = append(resp.Selected, c.Info.Name)
		}
		resp.Constructed = checkers.VerifProbeConstructed()
		if req.Run && resp.Err == "" {
			src := req.Src
			if src == "" {
				src = "package p\n"
			}
			f, err := parser.ParseFile(p.fset, "p.go", src, parser.ParseComments)
			if err != nil {
				resp.Err = err.Error()
				return
			}
			info := &types.Info{
				Types: map[ast.Expr]types.TypeAndValue{}, Defs: map[*ast.Ident]types.Object{}, Uses: map[*ast.Ident]types.Object{},
				Implicits: map[ast.Node]types.Object{}, Selections: map[*ast.SelectorExpr]*types.Selection{}, Scopes: map[ast.Node]*types.Scope{},
			}
			conf := types.Config{Importer: importer.Default(), Error: func(error) {}}
			pkg, _ := conf.Check("p", p.fset, []*ast.File{f}, info)
			p.ctx.SetPackageInfo(info, pkg)
			p.ctx.SetFileInfo("p.go", f)
			before := logbuf.Len()
			p.checkFile(f)
			for _, l := range strings.Split(logbuf.String()[before:], "\n") {
				if l != "" {
					resp.Lines = append(resp.Lines, l)
				}
			}
		}
	case "sched":
		if verifSchedHook == nil {
			resp.Err = "binary not built with the scheduler overlay"
			return
		}
		resp.Sched = verifSchedHook(req)
	case "shortenSweep":
		resp.Sweep = verifShortenSweep(req.Segments, req.DirDepth, req.FileDepth)
	case "shorten":
		p := program{workDir: req.WorkDir, gopath: req.Gopath, goroot: req.Goroot}
		resp.Out = p.shortenLocation(req.Loc)
	case "generated":
		fset := token.NewFileSet()
		f, err := parser.ParseFile(fset, "x.go", req.Src, parser.ParseComments)
		if err != nil {
			resp.Err = err.Error()
			return
		}
		var p program
		resp.Bool = verifIsGenerated(&p, "x.go", f)
	default:
		resp.Err = "unknown op"
	}
	return
}

type verifSweepViolation struct {
	Class                        string
	Loc, WorkDir, Gopath, Goroot string
	Out, Resolved                string
}

type verifSweepResult struct {
	Layouts    int
	Shortened  int // layouts in which the output differs from the input
	Forms      map[string]int
	Violations []verifSweepViolation
	PerClass   map[string]int
}

// verifShortenSweep enumerates every layout (working dir, GOPATH, GOROOT: all paths up to dirDepth;
// file: all paths up to fileDepth, over the segment alphabet) and checks on the real shortenLocation
// that expanding the printed prefix gives back exactly the input path.
func verifShortenSweep(segs []string, dirDepth, fileDepth int) *verifSweepResult {
	var paths func(depth int) []string
	paths = func(depth int) []string {
		if depth == 0 {
			return []string{""}
		}
		var out []string
		for _, p := range paths(depth - 1) {
			for _, s := range segs {
				out = append(out, p+"/"+s)
			}
		}
		return out
	}
	var dirs, files []string
	for d := 1; d <= dirDepth; d++ {
		for _, p := range paths(d) {
			dirs = append(dirs, p+"/")
		}
	}
	for d := 1; d <= fileDepth; d++ {
		files = append(files, paths(d)...)
	}
	res := &verifSweepResult{Forms: map[string]int{}, PerClass: map[string]int{}}
	wds := append([]string{""}, dirs...)
	for _, wd := range wds {
		for _, gp := range dirs {
			for _, gr := range dirs {
				p := program{workDir: wd, gopath: gp, goroot: gr}
				for _, f := range files {
					loc := f + ":3:7"
					out := p.shortenLocation(loc)
					res.Layouts++
					if out != loc {
						res.Shortened++
					}
					var resolved, form string
					switch {
					case strings.HasPrefix(out, "./"):
						form, resolved = "./", wd+out[2:]
					case strings.HasPrefix(out, "$GOPATH/"):
						form, resolved = "$GOPATH", gp+out[len("$GOPATH/"):]
					case strings.HasPrefix(out, "$GOROOT/"):
						form, resolved = "$GOROOT", gr+out[len("$GOROOT/"):]
					default:
						form, resolved = "abs", out
					}
					res.Forms[form]++
					if resolved != loc {
						cls := "unresolvable|" + form
						res.PerClass[cls]++
						if res.PerClass[cls] <= 3 {
							res.Violations = append(res.Violations, verifSweepViolation{cls, loc, wd, gp, gr, out, resolved})
						}
					}
				}
			}
		}
	}
	return res
}

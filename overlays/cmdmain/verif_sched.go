//go:build verif && verifsched

// Added to package main of the CLI binaries in scheduler builds (C04): explores every interleaving
// (up to a preemption bound) of the REAL checkFile, whose go/channel/WaitGroup operations were
// rewritten to the cooperative scheduler at build time.
package main

import (
	"bytes"
	"fmt"
	"go/ast"
	"go/importer"
	"go/parser"
	"go/token"
	"go/types"
	"log"
	"os"
	"runtime"
	"sort"
	"strings"

	"github.com/go-critic/go-critic/checkers"
	"github.com/go-critic/go-critic/linter"
	"github.com/go-critic/go-critic/verifmcrt"
)

// package-level initialisation runs before the init() of verif_rpc.go, which never returns in RPC mode
var _ = func() bool { verifSchedHook = verifSchedExplore; return true }()

type verifSchedResult struct {
	Executions   int
	Transitions  int
	Observations map[string]int
	MaxActive    int
	Violations   []verifSchedViolation
	Sample       []int
	SamplePoints []string
	Undrivable   string
}

type verifSchedViolation struct {
	Class    string
	Schedule []int
	Observed string
	Expected string
}

func verifSchedExplore(req *verifReq) interface{} {
	res := &verifSchedResult{Observations: map[string]int{}}
	fset := token.NewFileSet()
	src := "package p\n"
	if req.Src != "" {
		src = req.Src
	}
	f, err := parser.ParseFile(fset, "p.go", src, parser.ParseComments)
	if err != nil {
		return map[string]string{"err": err.Error()}
	}
	var info *types.Info
	var tpkg *types.Package
	if req.Src != "" {
		info = &types.Info{Types: map[ast.Expr]types.TypeAndValue{}, Defs: map[*ast.Ident]types.Object{}, Uses: map[*ast.Ident]types.Object{},
			Implicits: map[ast.Node]types.Object{}, Selections: map[*ast.SelectorExpr]*types.Selection{}, Scopes: map[ast.Node]*types.Scope{}, Instances: map[*ast.Ident]types.Instance{}}
		tpkg, err = (&types.Config{Importer: importer.ForCompiler(fset, "source", nil)}).Check("p", fset, []*ast.File{f}, info)
		if err != nil {
			return map[string]string{"err": err.Error()}
		}
	}
	byName := map[string]*linter.CheckerInfo{}
	for _, in := range linter.GetCheckersInfo() {
		byName[in.Name] = in
	}
	// every execution starts from a fresh context and fresh checkers, like a fresh CLI run
	mk := func(names []string, conc int) (*program, string) {
		ctx := linter.NewContext(fset, types.SizesFor("gc", runtime.GOARCH))
		if info != nil {
			ctx.SetPackageInfo(info, tpkg)
			ctx.SetFileInfo("p.go", f)
		}
		var cs []*linter.Checker
		for _, n := range names {
			in := byName[n]
			if in == nil {
				return nil, "no checker " + n
			}
			c, err := linter.NewChecker(ctx, in)
			if err != nil {
				return nil, err.Error()
			}
			cs = append(cs, c)
		}
		return &program{ctx: ctx, fset: fset, checkers: cs, concurrency: conc}, ""
	}
	p, emsg := mk(req.Args, req.DirDepth)
	if emsg != "" {
		return map[string]string{"err": emsg}
	}
	var logbuf bytes.Buffer
	log.SetOutput(&logbuf)
	defer log.SetOutput(os.Stderr)
	body := func() {
		if req.Src != "" {
			p, _ = mk(req.Args, req.DirDepth)
		}
		p.foundIssues = false
		p.checkFile(f)
	}
	// sequential reference: the diagnostics each checker produces alone, in checker order
	var wantLines []string
	willDie := ""
	if req.Src != "" {
		// real checkers: the reference is what each checker prints alone (own context, outside the scheduler)
		for _, n := range req.Args {
			// run under the scheduler as well (default schedule): every goroutine of the reference run is
			// managed and has unwound before the exploration starts
			q, _ := mk([]string{n}, 1)
			if x := verifmcrt.Run(nil, func() { q.checkFile(f) }); x.Diverged != "" || x.Deadlock || x.Died != "" {
				return map[string]string{"err": fmt.Sprintf("reference run of %s: diverged=%q deadlock=%v died=%q", n, x.Diverged, x.Deadlock, x.Died)}
			}
			for _, l := range strings.Split(logbuf.String(), "\n") {
				if l != "" {
					wantLines = append(wantLines, l)
				}
			}
			logbuf.Reset()
		}
	}
	for _, n := range req.Args {
		if req.Src != "" {
			break
		}
		if strings.HasPrefix(n, "vschedPanic") && willDie == "" {
			willDie = n
		}
		switch {
		case n == "vschedQuiet":
		case n == "vschedPanicErr", n == "vschedPanicStr":
		default:
			wantLines = append(wantLines, "p.go:1:1: "+n+": "+n+" first", "p.go:1:9: "+n+": "+n+" second")
		}
	}
	hasPanic := willDie != ""
	visit := func(x *verifmcrt.Execution) {
		res.Executions++
		res.Transitions += len(x.Points)
		maxActive := checkers.VerifSchedResetActive()
		if maxActive > res.MaxActive {
			res.MaxActive = maxActive
		}
		out := logbuf.String()
		logbuf.Reset()
		var lines []string
		for _, l := range strings.Split(out, "\n") {
			if l != "" {
				lines = append(lines, l)
			}
		}
		obs := fmt.Sprintf("died=%q deadlock=%v diverged=%q found=%v lines=%s", x.Died, x.Deadlock, x.Diverged, p.foundIssues, strings.Join(lines, " | "))
		res.Observations[obs]++
		if res.Sample == nil && len(x.Choices) > 4 {
			res.Sample = x.Choices
			for _, pt := range x.Points {
				res.SamplePoints = append(res.SamplePoints, fmt.Sprintf("%s enabled=%v chosen=%d", pt.What, pt.Enabled, pt.Chosen))
			}
		}
		viol := func(class, expected string) {
			if len(res.Violations) < 20 {
				res.Violations = append(res.Violations, verifSchedViolation{class, append([]int{}, x.Choices...), obs, expected})
			}
		}
		if strings.Contains(x.Diverged, "outside the scheduler") {
			res.Undrivable = x.Diverged
			return
		}
		if x.Diverged != "" {
			viol("replay-divergence", "deterministic replay")
			return
		}
		if x.Deadlock {
			viol("deadlock", "no deadlock")
			return
		}
		if maxActive > p.concurrency {
			viol("too-many-concurrent-checkers", fmt.Sprintf("at most %d checkers inside WalkFile", p.concurrency))
		}
		if hasPanic {
			if x.Died == "" {
				viol("checker-panic-swallowed", "the panic of a checker kills the run")
			}
			return
		}
		if x.Died != "" {
			viol("unexpected-death", "no goroutine dies")
			return
		}
		if strings.Join(lines, "\n") != strings.Join(wantLines, "\n") {
			viol("output-differs-from-sequential", strings.Join(wantLines, " | "))
		}
		if p.foundIssues != (len(wantLines) > 0) {
			viol("foundIssues-wrong", fmt.Sprint(len(wantLines) > 0))
		}
	}
	verifmcrt.ExploreUntil(req.FileDepth, body, visit, func() bool { return res.Undrivable != "" })
	_ = sort.Strings
	return res
}

//go:build verif

// Added to package checkers at build time through `go build -overlay` (never committed to /repo).
// Registers probe checkers (one per tag set, including the `security` tag that no real checker
// carries) through the public AddChecker API when VERIF_PROBES is set, and records which probe
// constructors were called.
package checkers

import (
	"go/ast"
	"os"
	"sync"

	"github.com/go-critic/go-critic/linter"
)

var (
	verifProbeMu          sync.Mutex
	verifProbeConstructed []string
)

// VerifProbeConstructed returns and clears the list of probe constructors called so far.
func VerifProbeConstructed() []string {
	verifProbeMu.Lock()
	defer verifProbeMu.Unlock()
	out := verifProbeConstructed
	verifProbeConstructed = nil
	return out
}

type verifProbe struct {
	ctx  *linter.CheckerContext
	name string
	p    int
}

func (c *verifProbe) WalkFile(f *ast.File) {
	c.ctx.Warn(f, "probe %s ran p=%d", c.name, c.p)
}

// VerifProbes is the probe table: name -> tags.
var VerifProbes = [][]string{
	{"vprobeDiag", linter.DiagnosticTag},
	{"vprobeStyle", linter.StyleTag},
	{"vprobePerf", linter.PerformanceTag},
	{"vprobeSec", linter.SecurityTag},
	{"vprobeDiagExp", linter.DiagnosticTag, linter.ExperimentalTag},
	{"vprobeStyleOpin", linter.StyleTag, linter.OpinionatedTag},
	{"vprobeStyleOpinExp", linter.StyleTag, linter.OpinionatedTag, linter.ExperimentalTag},
	{"vprobeSecExp", linter.SecurityTag, linter.ExperimentalTag},
}

func init() {
	if os.Getenv("VERIF_PROBES") == "" {
		return
	}
	for _, pr := range VerifProbes {
		info := &linter.CheckerInfo{
			Name:    pr[0],
			Tags:    pr[1:],
			Summary: "verification probe",
			Before:  "x",
			After:   "y",
			Params:  linter.CheckerParams{"p": {Value: 7, Usage: "probe parameter"}},
		}
		collection.AddChecker(info, func(ctx *linter.CheckerContext) (linter.FileWalker, error) {
			verifProbeMu.Lock()
			verifProbeConstructed = append(verifProbeConstructed, info.Name)
			verifProbeMu.Unlock()
			return &verifProbe{ctx: ctx, name: info.Name, p: info.Params.Int("p")}, nil
		})
	}
}

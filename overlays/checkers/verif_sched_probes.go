//go:build verif && verifsched

// Added to package checkers in scheduler builds (C04): probe checkers whose walkers yield to the
// cooperative scheduler, count how many of them are inside WalkFile at once, and optionally panic.
package checkers

import (
	"errors"
	"go/ast"
	"os"
	"sync/atomic"

	"github.com/go-critic/go-critic/linter"
	"github.com/go-critic/go-critic/verifmcrt"
)

var (
	verifSchedActive    int32
	verifSchedMaxActive int32
)

// VerifSchedResetActive resets the concurrency counters and returns the previous maximum.
func VerifSchedResetActive() int {
	m := atomic.SwapInt32(&verifSchedMaxActive, 0)
	atomic.StoreInt32(&verifSchedActive, 0)
	return int(m)
}

type verifSchedProbe struct {
	ctx   *linter.CheckerContext
	name  string
	panic string
}

func (c *verifSchedProbe) WalkFile(f *ast.File) {
	n := atomic.AddInt32(&verifSchedActive, 1)
	for {
		m := atomic.LoadInt32(&verifSchedMaxActive)
		if n <= m || atomic.CompareAndSwapInt32(&verifSchedMaxActive, m, n) {
			break
		}
	}
	defer atomic.AddInt32(&verifSchedActive, -1)
	verifmcrt.Yield()
	c.ctx.Warn(f, "%s first", c.name)
	verifmcrt.Yield()
	switch c.panic {
	case "err":
		panic(errors.New("probe error " + c.name))
	case "str":
		panic("probe panic " + c.name)
	}
	c.ctx.Warn(f.Name, "%s second", c.name)
}

func init() {
	if os.Getenv("VERIF_PROBES") == "" {
		return
	}
	for _, pr := range [][2]string{{"vschedA", ""}, {"vschedB", ""}, {"vschedC", ""}, {"vschedD", ""}, {"vschedPanicErr", "err"}, {"vschedPanicStr", "str"}, {"vschedQuiet", "quiet"}} {
		pr := pr
		info := &linter.CheckerInfo{Name: pr[0], Tags: []string{linter.DiagnosticTag, linter.ExperimentalTag}, Summary: "scheduler probe", Before: "x", After: "y"}
		collection.AddChecker(info, func(ctx *linter.CheckerContext) (linter.FileWalker, error) {
			if pr[1] == "quiet" {
				return &verifSchedQuiet{}, nil
			}
			return &verifSchedProbe{ctx: ctx, name: pr[0], panic: pr[1]}, nil
		})
	}
}

type verifSchedQuiet struct{}

func (*verifSchedQuiet) WalkFile(*ast.File) { verifmcrt.Yield() }

//go:build verif

// Added to package analyzer at build time (`go build -overlay`); lets the harness read the registry snapshot. (VerifReset, which
// puts the init latch back into its initial state, is generated per build: see harness.Overlay.)
package analyzer

// VerifRegistered returns the names in the registry snapshot the analyzer took at package init.
func VerifRegistered() []string {
	var out []string
	for _, info := range registeredCheckers {
		out = append(out, info.Name)
	}
	return out
}

// VerifRegistry returns name -> tags of the analyzer's registry snapshot.
func VerifRegistry() map[string][]string {
	out := map[string][]string{}
	for _, info := range registeredCheckers {
		out[info.Name] = append([]string{}, info.Tags...)
	}
	return out
}

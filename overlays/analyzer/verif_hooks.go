//go:build verif

// Added to package analyzer at build time (`go build -overlay`); gives the harness a way to put the
// init latch back into a chosen state between explored histories and to read it.
package analyzer

// VerifReset puts the cached-configuration latch into its initial state.
func VerifReset() {
	globalGocriticMu.Lock()
	globalGocritic = nil
	globalInitErrorReported = false
	globalGocriticMu.Unlock()
}

// VerifLatch reports (configuration cached, init error reported).
func VerifLatch() (bool, bool) {
	globalGocriticMu.Lock()
	defer globalGocriticMu.Unlock()
	return globalGocritic != nil, globalInitErrorReported
}

// VerifRegistered returns the names in the registry snapshot the analyzer took at package init.
func VerifRegistered() []string {
	var out []string
	for _, info := range registeredCheckers {
		out = append(out, info.Name)
	}
	return out
}

// VerifRegistry returns name -> tags of the analyzer's registry snapshot.
func VerifRegistry() map[string][]string {
	out := map[string][]string{}
	for _, info := range registeredCheckers {
		out[info.Name] = append([]string{}, info.Tags...)
	}
	return out
}

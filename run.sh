#!/bin/bash
# run.sh setup | run.sh <Cxx> quick|thorough | run.sh <Cxx> replay <file>
# Rebuilds the harness against /repo's current working tree on every call.
set -u
export GOFLAGS=-mod=mod GOPROXY=off GOSUMDB=off GOTOOLCHAIN=local
export VERIF_ROOT="${VERIF_ROOT:-$(cd "$(dirname "$0")" && pwd)}"
export VERIF_REPO="${VERIF_REPO:-/repo}"
cd "$VERIF_ROOT/mc" || exit 2
mkdir -p "$VERIF_ROOT/bin" "$VERIF_ROOT/evidence"

# the harness module replaces go-critic by /repo; take its go.sum from there
if [ "$VERIF_REPO" != "/repo" ]; then
  sed -i "s#^replace github.com/go-critic/go-critic => .*#replace github.com/go-critic/go-critic => $VERIF_REPO#" go.mod
fi
cat "$VERIF_REPO/go.sum" > go.sum 2>/dev/null

build() {
  local out="$VERIF_ROOT/bin/vcheck.$$"
  if ! go build -o "$out" ./cmd/vcheck 2> "$out.log"; then
    echo "run.sh: harness does not build against $VERIF_REPO (broken check, not a property violation):" >&2
    cat "$out.log" >&2
    rm -f "$out" "$out.log"
    exit 2
  fi
  rm -f "$out.log"
  VCHECK="$out"
}

case "${1:-}" in
  setup)
    build
    mv "$VCHECK" "$VERIF_ROOT/bin/vcheck"
    # warm the build cache for the real binaries and instrumented variants
    "$VERIF_ROOT/bin/vcheck" warm
    exit $?
    ;;
  C[0-9]*)
    prop="$1"; mode="${2:-quick}"; shift; shift || true
    build
    trap 'rm -f "$VCHECK"' EXIT
    case "$mode" in
      quick|thorough) VERIF_TIER="$mode" "$VCHECK" "$prop" "$@"; exit $? ;;
      replay) VERIF_TIER="${VERIF_TIER:-quick}" "$VCHECK" "$prop" --replay "$@"; exit $? ;;
      *) echo "usage: run.sh <Cxx> quick|thorough|replay <file>" >&2; exit 2 ;;
    esac
    ;;
  *)
    build
    trap 'rm -f "$VCHECK"' EXIT
    "$VCHECK" "$@"; exit $?
    ;;
esac

#!/usr/bin/env python3
"""Generates MANIFEST.json from the table below (kept in one place so it stays valid)."""
import json, sys

CHECKS = {
 # id: (level, technique, text, note, design_ref)
 "C17": ("exploration",
         "exhaustive enumeration of a finite artefact: every rule group/rule, registry entry and documentation entry compared with its recompiled/regenerated counterpart",
         "Complete enumeration (exhaustive:true) of all rule groups and rules (IR recompiled from rules.go through the precompile pipeline, compared field by field with the IR linked into the binaries; rulesdata.go bytes vs a real `go run precompile.go`), all registered checkers (each group <-> exactly one checker with equal metadata; hand-written names scanned independently from source) and all documentation entries (real makedocs run in a scratch tree vs docs/overview.md; rows, marks, sections parsed independently; `doc` and `doc <name>` of both CLI binaries; default-enabled marks compared with the rule of the property text and with what both real CLI mains select when no flag is given).",
         "Trusts go/parser, go/types and the pinned go-ruleguard irconv/irprint as the compiler; the default-enabled rule is the 4-tag rule of the property text.",
         "DESIGN.md section 3, C17"),
 "C06": ("exploration",
         "exhaustive enumeration of configurations (enable x disable lists <=2 keys x enable-all) against an executable specification, on the real selection code of three front-ends",
         "Complete enumeration of enable-list x disable-list (all lists of <=2 keys, flag absent, explicit empty) x enable-all over a key alphabet that realises all 32 combinations of the five deciding booleans for every checker, executed on the real initCheckers of cmd/go-critic and cmd/gocritic (driven in-process through an overlay-added RPC file that calls the unexported bind/parse/assign/init steps) and on the real analyzer filter (public Flags + Run); 8 probe checkers registered through the public AddChecker (one per tag set incl. security) observe constructor calls and diagnostic attribution; every (representative in quick, every in thorough) registered checker x 32 combinations on the full registry; the four real binaries with real flag parsing on a workspace (-v / -debug-init 'is enabled' lines, exit status). Added legs: no checker appears twice in the selected list; for three selections and every registered parameter x small value domain, a parameter flag of a checker that is not selected leaves error state, selection and constructor calls unchanged on all three front-ends.",
         "Oracle = the rule exactly as the property states it. Entries with surrounding blanks are outside the alphabet. The generated-documentation leg (default marks) is decided in C17.",
         "DESIGN.md section 3, C06"),
 "C01": ("exploration",
         "bounded-exhaustive enumeration of program families (full products of small alphabets; all 1-deviation mutants of the maintainers' examples) x all checkers, oracle: no panic / no hang",
         "Every program of explicitly described finite families is generated, filtered through go/types, and analysed by all 107 checkers on long-lived instances under recover and a watchdog: shadow/arity product (name x declaration kind x signature x argument shape x statement context, ~280k candidates, ~100k well-typed), odd-syntax snippets alone and in all ordered pairs, all 1-deviation mutants of the 211 example files (28 operators quick, 45 thorough), comment alphabet^k in 7 positions, string-constant token strings reaching regexp/fmt/flag calls, nestings of empty constructs (19 outer x 26 inner statement forms x 3 places), packages of struct types embedding each other in every way, and each checker parameter over a small value domain (over examples, odd and empty families). The dynamic-rules checker of every set runs a fixture of user rules with one rule group per kind of DSL filter on broad patterns; six one-rule fixtures apply object/value/size filters to arbitrary sub-matches in separate legs.",
         "Decides the property only inside the enumerated scopes (small-scope hypothesis): go/types is the judge of 'compilable'. A hang needs three solo re-runs of 120 s to count.",
         "DESIGN.md section 3, C01"),
 "C07": ("exploration",
         "bounded-exhaustive enumeration of program families x all checkers; every produced diagnostic checked against go/scanner token starts and message hygiene",
         "Second oracle over the same exhaustive program enumeration as C01 (~1.3 million diagnostics per quick run): position valid, inside the analysed file, at the start of a token or comment as computed by go/scanner over the file bytes; fix range valid, non-inverted, same file; text non-empty and free of formatting-failure artefacts that do not occur in the source.",
         "go/scanner is the reference for token starts; positions are taken unadjusted (no //line remapping).",
         "DESIGN.md section 3, C07"),
 "C20": ("exploration",
         "bounded-exhaustive enumeration of shadowing programs with a metamorphic twin (same program, user declaration renamed): a diagnostic that exists only under the API spelling is reported on a namesake",
         "Leg 1: full shadow family (34 qualified + 20 builtin subjects x 7-9 declaration kinds (incl. shadowing after a real call in an earlier function of the file) x 29 signatures x argument shapes x 27 contexts), go/types guarantees the subject identifier is a user declaration; each program with diagnostics is re-analysed with the declaration renamed to a same-length neutral identifier. Leg 2: every (example file, std import used only through functions): the import is replaced by a package-level variable with identical function signatures (so rule-based checkers see the same call shapes) and, as a second variant, by a user package with the same name and identical function signatures under another import path, each plus neutral twin; a diagnostic present in original and namesake variant but absent in the neutral twin is API-specific and wrongly issued.",
         "Checkers whose documented subject is shadowing itself (builtinShadow, builtinShadowDecl, importShadow) are exempt. Known findings are keyed checker|subject.",
         "DESIGN.md section 3, C20"),
 "C03": ("model_checking",
         "explicit-state exploration of visit histories on real long-lived checker sets: all sequences up to a depth from the initial state, Eulerian tour over all ordered pairs of example files, all argument orders/groupings on the real binary; differential oracle = fresh instance",
         "States are histories of (package,file) visits executed on real checker sets built like initCheckers does. All sequences of length <=3 (hand-written checkers; <=4 thorough) and <=2 (rule-based; <=3 thorough) over a 21-file alphabet chosen from the files that exercise per-checker scratch state, each from a fresh set; an Eulerian tour of the complete digraph over the example files on one long-lived full set (every ordered pair as consecutive visits, long histories); the dynamic-rules checker with a fixture of user rules of every filter kind (package-, file-, version-dependent) explored by a BFS of its own and in the tour; for every package of the type-graph family (2 struct types, thorough 3, each embedding every ordered selection of the other types, a Query+Exec type and a Query-only type) every order of its use-site files on one long-lived set; every permutation and consecutive grouping of three package arguments x concurrency on the real binary. In every state the output for the last file must equal that of a fresh set on the file alone.",
         "No state abstraction or pruning is used (histories are not merged), so nothing is hidden by an incomplete fingerprint; the alphabet bounds what scratch state can be reached.",
         "DESIGN.md section 3, C03"),
 "C02": ("model_checking",
         "exhaustive exploration of environment answers: every dynamic map-range visit is a choice point whose key permutations are all executed on the real (build-time rewritten) code; identical ordered output demanded; second choice per program: the company a checker runs in (registration order on a long-lived set vs reverse order on a fresh context)",
         "vinstr rewrites every `range` over a map-typed expression (decided with go/types) in linter, checkers, analyzer and cmd into iteration over verifmcrt.MapKeys (canonical order, then the permutation the explorer dictates); /repo is untouched (go build -overlay). For every scenario (each example/odd program analysed by all checkers on a long-lived set; registry listing) the canonical execution records its choice points, then every permutation of every choice point (<=4 keys: all 23; more: rotations, reversal, adjacent swaps) is executed as one deviation (thorough: all pairs) and the ordered diagnostics incl. fixes must be identical; a replayed prefix that diverges is a hard error and the same plan is executed twice first. Conformance: the uninstrumented binaries are run 8x (24x thorough) with identical arguments and must print identical bytes. Goroutine timing is C04's subject.",
         "The company choice has two answers per program (for every ordered pair of checkers one of them runs the one before the other), not all orders. Map ranges inside third-party modules are not rewritten (only the repeated real runs see them). Sites never reached with >=2 keys are listed in evidence (CLI flag binding loops are order-insensitive by inspection and not driven).",
         "DESIGN.md section 3, C02"),
 "C05": ("exploration",
         "bounded-exhaustive program enumeration x all checkers with a reflection-based deep fingerprint of tree, type info, context and registry around every checker run, plus forward/reverse checker order on pristine trees",
         "For every program of the corpus (examples, odd-syntax and build-constraint files, 1-deviation mutants, shadow family) the complete *ast.File graph (every field of every node, positions, slice backing arrays, comments, Obj/Scope), every types.Info map, every linter.Context field and the registered metadata/parameter values are hashed by reflection before and after checker runs (after every single checker for the example files; around the whole set with per-checker bisection otherwise); any difference is a write. Second leg: each program is analysed on two freshly parsed trees with the checker list in ascending and descending order and every checker must report the same diagnostics.",
         "go/types objects are compared by identity (their interiors are lazily completed by go/types itself); FileSet.Base is excluded because harness workers share one file set; every field of linter.Context, exported or not, is walked by reflection (no hand-written field list); the registry fingerprint is also taken around construction and use of each parameterised checker for every value of a small domain; package-level variables of go-critic are not fingerprinted (covered indirectly by the order leg and by C03/C04).",
         "DESIGN.md section 3, C05"),
 "C18": ("fault_enumeration",
         "exhaustive enumeration of fault sequences (rule files in every failure class, in every order up to a length) x failOn policy x legacy flag x group filters on the real loader, against a reference model of the stated policy",
         "All sequences of length <=3 (<=4 thorough) over {valid A, valid B, unreadable, syntax error, DSL error, unloadable import in a type filter, empty file}, given as comma list and as glob, x failOn {unset, dsl, import, all, dsl+import, bogus, dsl+bogus, 'all,'} x legacy boolean; enable x disable lists (names, #tags, #experimental, unknown) on representative sequences; a pattern matching nothing in each position; unknown failOn without rules. Each configuration executes the real newRuleguardChecker and then analyses a file that triggers every group; the oracle is a 60-line reference model (init fails iff ...; runs(g) iff ...; diagnostics exactly those of running groups from surviving files, nothing when no file survives).",
         "Left open because the statement does not settle them (both answers accepted, counted in evidence): the failure class of an unreadable file under failOn=dsl/import, an experimental group enabled by name only, the same valid file listed twice. The go-ruleguard engine is trusted for matching.",
         "DESIGN.md section 3, C18"),
 "C19": ("fault_enumeration",
         "exhaustive enumeration of invalid configurations x front-ends x package counts, of analyzer-pass histories on the real init latch, and of load-fault target sets; oracle: clean non-zero exit with a naming message, never a panic, nothing analysed after failed init, outcome independent of package count",
         "19 invalid configurations (6 malformed -go values, unknown failOn alone and next to a valid value, rule pattern without match alone and before/after a matching one, a failing dynamic-rules checker next to a healthy checker, two empty selections, two unparsable parameter values, unknown flag, unknown parameter) x the 4 real binaries x 1..3 packages; the analyzer's cached-configuration latch explored as an explicit state machine: all sequences of <=4 passes over {valid, valid-2, bad -go, empty selection, failing dynamic-rules checker alone and next to a healthy checker, bad rule pattern} from the reset latch on the real prepareGocritic/runAnalyzer (driven through Analyzer.Run, latch reset/read by an overlay-added hook file); target sets of <=2 packages over {ok, syntax error, type error, unresolved import, mixed package clauses, import cycle, only _test files, empty dir} x 4 binaries x enable-all; ill-typed 1-deviation variants of the examples analysed in-process by all checkers.",
         "A faulty package that is analysed with zero diagnostics and exit 0 is accepted (the property allows 'analysed as far as its type information allows').",
         "DESIGN.md section 3, C19"),
 "C13": ("exploration",
         "exhaustive enumeration of metamorphic transformations (padding/blank-line insertion at every gap, appended declarations, permutations of function chunks) of every example file; oracle = the file's own expectations",
         "For each of the 211 example files of the 102 checkers that have examples: 9 padding declarations (func, body-less func, method, generic func, type, var block, const, control-flow func, deferred literal) appended and inserted at every gap between top-level declarations, 1 and 3 blank lines at every gap, and every permutation of the plain-function chunks (complete up to 5 functions, else rotations/reversal/adjacent swaps). Each variant is re-type-checked and analysed by its checker; the /*! */ expectations are re-read from the transformed text (they move with their chunk) and must match the produced warnings exactly; warnings located inside padding are discounted.",
         "Reordering is not applied to dupImport, typeDefFirst, commentedOutImport, codegenComment; nothing is inserted above the imports. The maintainers' expectations are the oracle, so only examples' constructs are covered.",
         "DESIGN.md section 3, C13"),
 "C14": ("exploration",
         "exhaustive enumeration of (parameter, value, route) and of full measure x threshold grids against the documented predicate; quoted sizes against a compiled unsafe.Sizeof program",
         "(a) every registered parameter (14, ruleguard's are C18's) x {default, witness value} x {integrator override before NewChecker, -@c.p on go-critic and gocritic, analyzer flag on both analysis binaries} on a witness package whose diagnostics differ between the two values: each route must reproduce the integrator route's diagnostics; (b) for hugeParam (parameter and receiver), rangeValCopy, rangeExprCopy, tooManyResults, nestingReduce, ifElseChain, commentedOutCode: generated programs measuring exactly N for N in 0..40 (+ spot values up to 4096 for byte sizes) x threshold T over the same window (-1..40 + spots): reported iff documented predicate (N>=T, N>T for 'maximum'), monotone in both directions; where the usage text does not fix the unit (ifElseChain, commentedOutCode) the flip point must exist and move by exactly one per unit; (c) 44 types incl. padding, zero-size trailing fields, nested arrays/structs: hugeParam's '(N bytes)' vs unsafe.Sizeof printed by a compiled program.",
         "The witness table is checked for completeness against the registry (a new parameter makes the check exit 2 until a witness is added).",
         "DESIGN.md section 3, C14"),
 "C15": ("exploration",
         "exhaustive enumeration of target versions x corpus x checkers; every recommended std API / literal syntax dated from GOROOT/api; full enumeration of version strings for the parser and of version pairs for the comparator",
         "Every version 1.0..1.25 in both spellings plus unset, 1.99, 2.0 x every example package and odd/build-constraint file x all checkers (one long-lived set per version). For versions >= 1.13 every std function, method or 0o literal named in a diagnostic's message or fix and not quoted from the analysed file is dated with GOROOT/api/go1.*.txt and must not be newer than the configured version. Equivalences: unset == 1.25 == 1.99; '1.N' == 'go1.N' for every N. Parser: every string over {go,1,2,0,9,10,.,x,-,blank} up to 4 symbols against the numeric reading; comparator: all pairs over 11 versions against (major,minor) lexicographic order. Plumbing: 11 versions through -go on go-critic, gocritic and go-critic-analysis compared with SetGoVersion in-process on a witness that changes at 1.13/1.15/1.17/1.18.",
         "Method names are dated by their earliest appearance on any standard type (lower bound, cannot alarm falsely); a token that occurs anywhere in the analysed file counts as quoted.",
         "DESIGN.md section 3, C15"),
 "C16": ("exploration",
         "exhaustive enumeration of path layouts on the real shortenLocation, of header-comment classes on the real isGenerated, and of flag/workspace configurations on the real binary against in-process diagnostics",
         "(a) 4.2 million layouts: working dir (or none), GOPATH, GOROOT over all paths of depth <=2 and file over all paths of depth <=3 over the segments {go,src,w,go-x,w.go} (every prefix/equality/substring relation occurs), executed inside the instrumented binaries on the real shortenLocation; expanding the printed prefix must give back the input. (b) 16 header classes (licence, marker, marker as package doc, licence-then-marker, marker-then-licence, trailing/leading text, mid-sentence, block comments, after the package clause, second line of a group, lower case, no period, build tag first) on the real isGenerated vs go/ast.IsGenerated. (c) real go-critic/gocritic: workspace with plain/_test/generated/generated-test/clean files, same-named files in different packages of which one is generated (both orders), a directory named w.go, x checkTests x checkGenerated x exitCode {1,0,3,255} x shorterErrLocation x {module root, sub-directory, absolute arguments} x package sets, plus -enable lists that select one checker through several keys (name twice, name + tag, all tags): every expected diagnostic exactly once with a location that resolves to the real file:line:col, nothing for filtered files, exit 0 iff no line else the configured code.",
         "Expected diagnostics come from the same checker run in-process (assignOp); $GOROOT-prefixed output is only covered by the layout sweep.",
         "DESIGN.md section 3, C16"),
 "C08": ("exploration",
         "exhaustive differential enumeration: workspaces x configurations expressible in both flag dialects x the four real binaries, pairwise equality of normalised diagnostics; registry and quick-fix forwarding compared in-process",
         "6 workspaces (single package, in-package tests, external tests, three packages, explicit file arguments, packages sharing package names and file base names) x {default, enable-all, two -go versions, 8 enable/disable list pairs with explicit -disable on both sides, every checker parameter at a non-default value} x go-critic, gocritic, go-critic-analysis, gocritic-analysis: diagnostics normalised to (file,line,col,checker,message) must be equal as sets and each printed exactly once. In-process: every checker registered for the CLI must be in the analyzer's registry snapshot (read through an overlay-added hook), and a quick fix (commentFormatting) must arrive as exactly one SuggestedFix with one TextEdit equal to From/To/Replacement.",
         "go-critic is the reference front-end. The missing rule-based checkers in the analyzer are one recorded finding (keyed by root cause), so any other disagreement still alarms.",
         "DESIGN.md section 3, C08"),
 "C11": ("exploration",
         "bounded-exhaustive enumeration of pattern syntax trees fed to the real simplifier; every proposed rewrite compared with the original on all subject strings up to a length under Go's regexp",
         "About 440 000 patterns (42 atoms x 13 quantifiers, all concatenations of two quantified atoms, three over a reduced alphabet, alternations of 2-3 items bare/grouped/anchored/in context, grouping x quantifier over concatenations of <=2 atoms, adjacent identical groups; <=60 bytes, accepted by regexp.Compile) are analysed by the real checker; for each of the ~320 000 proposed rewrites the original and the rewrite are compiled with Go's regexp and compared on every subject string over the pattern's own characters plus {z, newline} up to length 4 (5 thorough): FindStringSubmatchIndex, NumSubexp and SubexpNames must agree. A failing pattern is shrunk (token deletion against the real checker) to a minimal pattern with the same failure and keyed by the wrong rewrite step.",
         "Go's regexp is the reference semantics. Known findings are keyed by failure kind and recognised rewrite step (unrecognised steps keep their literal diff hunk as key, so they always alarm).",
         "DESIGN.md section 3, C11"),
 "C04": ("model_checking",
         "stateless model checking of the real concurrent code under a hand-written cooperative scheduler: DFS over schedules with a preemption bound (unbounded for small scenarios), invariants and sequential-result comparison in every execution; free-running race-detector legs as complement",
         "vinstr rewrites, at build time, the go statement, the chan struct{} semaphore, sync.WaitGroup and sync.Mutex of cmd/*/check.go and checkers/analyzer/run.go to scheduler shims (verifmcrt); /repo is untouched. Leg 1: the real checkFile with 1-3 probe checkers (walkers that yield, count how many are inside WalkFile, optionally panic with an error / a string) x concurrency 1..3, every interleaving (unbounded for <=2 checkers, preemption bound 2 otherwise, 3 thorough): no deadlock, at most `concurrency` walkers active, output lines equal the sequential order, foundIssues correct, a checker panic kills the run, identical replay. Leg 2: 2 and 3 concurrent passes of the real runAnalyzer from a fresh and a warm init latch x {valid, bad -go, empty selection}: every pass equals its sequential result, error reported as sequentially, nothing analysed after a failed init. Leg 3 (complement, sampling of schedules): -race builds of the real go-critic with -concurrency 1..16 on a workspace and of a harness that runs all 107 checkers as goroutines over every example file and parallel per-package checker sets; any race report or output difference is a violation.",
         "The cooperative scheduler sees only the rewritten synchronisation points and yields inside probe walkers; unsynchronised accesses inside real checkers are the race-detector legs' and C05's subject (race legs: all checkers as goroutines per file, parallel per-package sets, the -race CLI at every concurrency value, and 8 really concurrent analyzer passes x 40 rounds per valid/invalid configuration, with the count of passes that return the init error compared to the sequential answer). A skeleton using primitives the rewriter does not know is reported as undrivable (cap; exit 2 if no other leg reports). -concurrency <= 0 is outside the stated range.",
         "DESIGN.md section 3, C04"),
 "C09": ("exploration",
         "bounded-exhaustive program enumeration; every machine fix and every message-quoted replacement is substituted into the file and judged by go/parser, go/types and re-analysis",
         "Over all example packages, the odd-syntax and type-shape families and all 1-deviation mutants of the examples (incl. re-typing declarations to defined/alias types and inserting a marker statement between every two adjacent statements): for each diagnostic with a QuickFix, and each message matching one of six quotation formats whose quoted original can be located in the source, the replacement must parse as the category of what it replaces; the file with the replacement substituted must type-check (std imports named by the replacement are added, now-unused imports ignored); the replaced expression must keep its type up to default typing (evaluated inside one type universe); marker statements inside a fix range must survive; and re-analysis must not report the same diagnostic at the same place (the checker's diagnostics in that file must decrease).",
         "A fix whose range does not contain the diagnosed position is a violation of its own. Messages in other formats are counted as unclassified and never judged. methodExprCall's two-part rewrite is not judged.",
         "DESIGN.md section 3, C09"),
 "C12": ("exploration",
         "bounded-exhaustive enumeration of claim families; every program on which a checker asserts a run-time fact is compiled and executed on value grids by the real toolchain and the observed values compared with the claim",
         "Families over the side conditions the property names: sloppyLen (real / package-level / local shadow of len x 6 operand types x 3 comparisons), badCond (int, float incl. NaN, impure call, field operands x constant pairs x operator pairs), offBy1 (slice, named slice, string, array pointer, map, named map, alias, type-parameter containers x read/write/generic), caseOrder (all ordered case lists of length 2 and selected length 3 over {int, pointer, value, Stringer, error, interface{}, nil, *myErr}; two functions with same-named local types / type parameters that differ in what they implement), nilValReturn (6 types x real/shadowed nil x ==/!=), dupSubExpr/dupArg (11 operand kinds incl. impure calls, method calls, channel receive, map index x 6 operators). One text is analysed, one executed; they differ only by observation calls the template places itself. Observed condition values, panics, taken switch arms, returned nil-ness and operand equality must agree with every claim.",
         "Value grids and families bound the scope; a claim about a construct outside the families is not exercised.",
         "DESIGN.md section 3, C12"),
 "C10": ("exploration",
         "bounded-exhaustive enumeration of rewrite templates over operand alphabets; every proposed rewrite is executed against the original on full argument grids by the real toolchain (result, panic and side-effect trace compared)",
         "About 1100 template functions cover every checker the property lists: negated comparisons x 6 operators x {int, float64, named float, string}; all 36 pairs of comparison operators on the same operands joined by || and && (against each other, swapped, against a constant); range folds with decimal/octal/0o/hex literals x {int, uint8, float64, named float}; +1/-1 removal in 8 shapes x 4 numeric types; compound assignment for every operator, type and operand order; len/empty-string tests on string and named string; bytes/string comparisons; unslice; underef (field, method, array index); *new(T) over 14 types; lambda and deferred-lambda removal incl. callees reassigned between creation and use; Sprint removal incl. nil Stringer pointers; value swap incl. temporary used afterwards and impure indices; switch true; Yoda incl. impure operands; 15 strings/bytes predicates and wrappers; three Index-to-Cut shapes; 11 time-unit expressions. For each rewrite the real checker proposes (fix or quoted), the function is cloned with the rewrite applied; both run over the product of the parameter grids (ints -2..11, floats incl. NaN/-0/+-Inf, strings incl. multi-byte separators and absent separators, nil/non-nil pointers) and must produce identical transcripts.",
         "Integer grids stay away from overflow (the property allows that assumption). Rewrites that do not compile in place are C09's subject. Checkers outside the property's list are ignored.",
         "DESIGN.md section 3, C10"),
}

PENDING = {
}

ALL = ["C%02d" % i for i in range(1, 21)]

def main():
    checks = []
    for pid in ALL:
        if pid not in CHECKS:
            continue
        level, technique, text, note, ref = CHECKS[pid]
        checks.append({
            "property_id": pid,
            "quick_cmd": "./run.sh %s quick" % pid,
            "thorough_cmd": "./run.sh %s thorough" % pid,
            "evidence_file": "/verif/evidence/%s.json" % pid,
            "replay_cmd_template": "./run.sh %s replay {path}" % pid,
            "engine": "vcheck",
            "level_claimed": {"category": level, "text": text, "design_ref": ref},
            "level_note": note,
            "technique": technique,
        })
    na = []
    for pid in ALL:
        if pid not in CHECKS:
            na.append({"property_id": pid, "reason": PENDING.get(pid, "check not built yet in this framework (work in progress; see DESIGN.md section 3 for the planned bounded-exhaustive check)")})
    m = {
        "version": 1,
        "setup_cmd": "./run.sh setup",
        "hooks": {
            "guard": "verif",
            "enable": "no hook lives in /repo: seams are added at build time with `go build -overlay` from files generated by /verif/mc (tag/guard name `verif`); /repo is compiled from its current working tree",
            "baseline_off_cmd": "cd /repo && GOMODCACHE=/root/go/pkg/mod GOFLAGS=-mod=mod GOPROXY=off GOSUMDB=off GOTOOLCHAIN=local go test -vet=off -count=1 -timeout 25m ./...",
            "source_commits": [],
            "add_only": True,
        },
        "engines": [
            {"name": "vcheck", "path": "/verif/mc", "serves_properties": [c["property_id"] for c in checks],
             "kind_free_text": "hand-written bounded-exhaustive explorer in Go: enumerators of programs/configurations/histories/environment answers over the real go-critic code (in-process and through the real binaries), cooperative scheduler with preemption-bounded DFS for the concurrent parts"},
        ],
        "checks": checks,
        "not_applicable": na,
        "notes": "All commands rebuild the harness and go-critic from /repo's working tree. Known genuine defects are listed in /verif/known_findings.jsonl.",
    }
    json.dump(m, open("MANIFEST.json", "w"), indent=1)
    print("checks:", [c["property_id"] for c in checks], "na:", len(na))

main()

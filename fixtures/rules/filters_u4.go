//go:build ignore

// Unguarded user rule 4: an object/value/type filter applied to sub-matches that need not be identifiers,
// constants or typed expressions. One rule per file: each is a separate leg of C01, so that a crash inside one
// filter does not shadow the others.
package gorules

import "github.com/quasilyte/go-ruleguard/dsl"

func u4(m dsl.Matcher) {
	m.Match(`$x[$i]`).Where(m["i"].Value.Int() == 0).Report(`U:idx0`)
	m.Match(`$x < $y`).Where(m["y"].Value.Int() >= 0).Report(`U:cmp`)
}

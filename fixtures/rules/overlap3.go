//go:build ignore

package gorules

import "github.com/quasilyte/go-ruleguard/dsl"

func ov3(m dsl.Matcher) {
	m.Match(`tNone($_)`, `tStyle($_)`).Report(`O3:third`)
}

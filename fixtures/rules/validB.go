//go:build ignore

package gorules

import "github.com/quasilyte/go-ruleguard/dsl"

func hB(m dsl.Matcher) {
	m.Match(`tB($x)`).Report(`B:hB`)
}

//doc:tags style
func hStyle(m dsl.Matcher) {
	m.Match(`tBStyle($x)`).Report(`B:hStyle`)
}

package gorules

func (

//go:build ignore

package gorules

import "github.com/quasilyte/go-ruleguard/dsl"

func impBad(m dsl.Matcher) {
	m.Import(`example.com/nosuch/pkg`)
	m.Match(`tImp($x)`).Where(m["x"].Type.Implements(`pkg.Iface`)).Report(`I:impBad`)
}

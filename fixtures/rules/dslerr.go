//go:build ignore

package gorules

import "github.com/quasilyte/go-ruleguard/dsl"

func dslBad(m dsl.Matcher) {
	x := 1
	_ = x
	m.Match(`tDsl($x)`).Report(`D:dslBad`)
}

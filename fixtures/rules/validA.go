//go:build ignore

package gorules

import "github.com/quasilyte/go-ruleguard/dsl"

func gNone(m dsl.Matcher) {
	m.Match(`tNone($x)`).Report(`A:gNone`)
}

//doc:tags style
func gStyle(m dsl.Matcher) {
	m.Match(`tStyle($x)`).Report(`A:gStyle`)
}

//doc:tags test
func gTest(m dsl.Matcher) {
	m.Match(`tTest($x)`).Report(`A:gTest`)
}

//doc:tags experimental
func gExp(m dsl.Matcher) {
	m.Match(`tExp($x)`).Report(`A:gExp`)
}

//doc:tags style experimental
func gStyleExp(m dsl.Matcher) {
	m.Match(`tStyleExp($x)`).Report(`A:gStyleExp`)
}

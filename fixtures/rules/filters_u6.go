//go:build ignore

// Unguarded user rule 6: an object/value/type filter applied to sub-matches that need not be identifiers,
// constants or typed expressions. One rule per file: each is a separate leg of C01, so that a crash inside one
// filter does not shadow the others.
package gorules

import "github.com/quasilyte/go-ruleguard/dsl"

func u6(m dsl.Matcher) {
	m.Match(`$x == $y`).Where(m["x"].Type.IdenticalTo(m["y"]) && m["x"].Comparable && !m["y"].Addressable).Report(`U:eq`)
	m.Match(`$x.$y`).Where(m["x"].Type.Underlying().Is(`struct{$*_}`) || m["x"].Type.HasPointers() || m["x"].Type.Implements(`error`)).Report(`U:sel`)
}

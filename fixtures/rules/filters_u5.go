//go:build ignore

// Unguarded user rule 5: an object/value/type filter applied to sub-matches that need not be identifiers,
// constants or typed expressions. One rule per file: each is a separate leg of C01, so that a crash inside one
// filter does not shadow the others.
package gorules

import "github.com/quasilyte/go-ruleguard/dsl"

func u5(m dsl.Matcher) {
	m.Match(`$x < $y`, `$x + $y`).Where(m["x"].Type.Size >= 0).Report(`U:size`)
}

//go:build ignore

// One rule group per kind of filter the DSL offers, each on a broad pattern, so that user-supplied rules of
// every filter kind are evaluated on every program of the corpora (C01/C07: no crash, valid positions;
// C03: the verdict of a package-, file- or version-dependent filter does not depend on earlier packages).
package gorules

import "github.com/quasilyte/go-ruleguard/dsl"

func fPkgPath(m dsl.Matcher) {
	m.Match(`$f($*_)`).Where(m.File().PkgPath.Matches(`(extra1|vpkg|appendAssign|dupImport)$`)).Report(`F:pkgpath $f`)
}

func fFileName(m dsl.Matcher) {
	m.Match(`return $*_`).Where(m.File().Name.Matches(`^(e1|f|positive_tests)\.go$`)).Report(`F:filename`)
}

func fImports(m dsl.Matcher) {
	m.Match(`$x.$y($*_)`).Where(m.File().Imports("strings") || m.File().Imports("fmt")).Report(`F:imports $x`)
}

// The blank identifier has no object: the library's IsGlobal filter dereferences nil on it (known finding,
// exercised by filters_u1.go); it is excluded here so that the other rule groups keep running on such files.
func fGlobal(m dsl.Matcher) {
	m.Match(`$x = $_`, `$x++`, `$x += $_`).Where(m["x"].Node.Is(`Ident`) && !m["x"].Text.Matches(`^_$`) && m["x"].Object.IsGlobal()).Report(`F:global $x`)
}

func fObject(m dsl.Matcher) {
	m.Match(`$x.$_`).Where(m["x"].Object.Is(`PkgName`)).Report(`F:pkgname $x`)
	m.Match(`$x($*_)`).Where(m["x"].Object.Is(`Func`)).Report(`F:func $x`)
	m.Match(`$x == $_`).Where(m["x"].Object.Is(`Var`)).Report(`F:var $x`)
	m.Match(`$x($*_)`).Where(m["x"].Object.Is(`TypeName`)).Report(`F:conv $x`)
	m.Match(`$f($*_, $x...)`).Where(m["x"].Object.IsVariadicParam()).Report(`F:variadic $x`)
}

func fTypes(m dsl.Matcher) {
	m.Match(`$x == $y`).Where(m["x"].Type.Is(`string`) && m["y"].Type.Is(`string`)).Report(`F:streq`)
	m.Match(`$x != $y`).Where(m["x"].Type.Underlying().Is(`[]$_`) || m["x"].Type.Underlying().Is(`map[$_]$_`)).Report(`F:nilcmp`)
	m.Match(`len($x)`).Where(m["x"].Type.Is(`[$_]$_`) || m["x"].Type.Is(`*[$_]$_`)).Report(`F:arrlen`)
	m.Match(`$x.$m($*_)`).Where(m["x"].Type.Implements(`error`) || m["x"].Type.Implements(`fmt.Stringer`)).Report(`F:impl $m`)
	m.Match(`$x.$m($*_)`).Where(m["x"].Type.HasMethod(`io.Writer.Write`)).Report(`F:hasmethod $m`)
	m.Match(`$x = $y`).Where(m["y"].Type.AssignableTo(`interface{}`) && m["y"].Type.ConvertibleTo(`string`) && !m["x"].Type.IdenticalTo(m["y"])).Report(`F:conv-assign`)
	m.Match(`$x := $y`).Where(m["y"].Type.HasPointers() && m["y"].Type.Size > 64).Report(`F:bigptr $x`)
	m.Match(`$x + $y`).Where(m["x"].Type.OfKind(`float`) || m["x"].Type.OfKind(`complex`)).Report(`F:floatadd`)
	m.Match(`$x < $y`).Where(m["x"].Type.OfKind(`unsigned`) && m["y"].Value.Int() == 0).Report(`F:ult0`)
	m.Match(`$x.Error()`, `$x.String()`).Where(m["$$"].SinkType.Is(`interface{}`)).Report(`F:sink $x`)
}

func fExprProps(m dsl.Matcher) {
	m.Match(`$x || $x`, `$x && $x`).Where(m["x"].Pure).Report(`F:dup $x`)
	m.Match(`$x[$i]`).Where(m["i"].Const && m["i"].Value.Int() >= 0 && m["x"].Addressable).Report(`F:constidx`)
	m.Match(`append($_, $x)`).Where(m["x"].ConstSlice || m["x"].Const).Report(`F:appendconst`)
	m.Match(`$x == $y`).Where(!m["x"].Comparable).Report(`F:incomparable`)
	m.Match(`$_ + $x`, `$_ == $x`, `return $x`).Where(m["x"].Node.Is(`BasicLit`) && m["x"].Text.Matches(`^0[0-9]+$`)).Report(`F:octal $x`)
	m.Match(`$_{$*_}`).Where(m["$$"].Node.Parent().Is(`ReturnStmt`)).Report(`F:retlit`)
	m.Match(`for $*_ { $*body }`).Where(m["body"].Contains(`defer $_($*_)`)).Report(`F:deferloop`)
	m.Match(`if $c { $*_ }`).Where(m["c"].Line == 1 || m["c"].Text == "true").Report(`F:iftrue`)
	m.Match(`$f($*_); return $*_`).Where(m.Deadcode()).Report(`F:dead`)
}

func fVersion(m dsl.Matcher) {
	m.Match(`interface{}`).Where(m.GoVersion().GreaterEqThan("1.18")).Report(`F:any`)
	m.Match(`$x.Unix() / 1000`).Where(m.GoVersion().LessThan("1.17")).Report(`F:old-unix`)
}

// Comment patterns are anchored: an unanchored pattern makes the library report at the place inside the comment
// where the regexp matched, which is what such a user rule asks for and not a position go-critic chose.
func fComment(m dsl.Matcher) {
	m.MatchComment(`^//\s*TODO`).Report(`F:todo`)
	m.MatchComment(`^/\*(?P<body>[^*]*)\*/`).Where(m["body"].Text.Matches(`FIXME`)).Report(`F:fixme $body`)
}

func fSuggest(m dsl.Matcher) {
	m.Match(`$x = $x + $y`).Where(m["x"].Pure && m["x"].Type.OfKind(`numeric`)).Suggest(`$x += $y`)
	m.Match(`fmt.Sprint($x)`).Where(m["x"].Type.Is(`string`)).Report(`F:sprint`).Suggest(`$x`).At(m["x"])
}

func fCustom(m dsl.Matcher) {
	m.Match(`$x := $_`).Where(m["x"].Filter(shortName)).Report(`F:short $x`)
}

func shortName(ctx *dsl.VarFilterContext) bool {
	return ctx.SizeOf(ctx.Type) > 128
}

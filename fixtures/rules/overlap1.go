//go:build ignore

package gorules

import "github.com/quasilyte/go-ruleguard/dsl"

func ov1(m dsl.Matcher) {
	m.Match(`tNone($x)`).Report(`O1:general`).Suggest(`tNone(0)`)
}

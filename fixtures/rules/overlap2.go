//go:build ignore

package gorules

import "github.com/quasilyte/go-ruleguard/dsl"

func ov2(m dsl.Matcher) {
	m.Match(`tNone(1)`).Report(`O2:specific`).Suggest(`tNone(2)`)
}

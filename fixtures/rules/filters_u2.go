//go:build ignore

// Unguarded user rule 2: an object/value/type filter applied to sub-matches that need not be identifiers,
// constants or typed expressions. One rule per file: each is a separate leg of C01, so that a crash inside one
// filter does not shadow the others.
package gorules

import "github.com/quasilyte/go-ruleguard/dsl"

func u2(m dsl.Matcher) {
	m.Match(`$x.$_`).Where(m["x"].Object.Is(`PkgName`)).Report(`U:pkgname $x`)
	m.Match(`$x($*_)`).Where(m["x"].Object.Is(`Func`) || m["x"].Object.Is(`TypeName`)).Report(`U:callee $x`)
}
